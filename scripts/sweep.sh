#!/bin/bash
# sweep.sh <tier> <seed>... : runs every registered property at the given seeds with the prebuilt binary
TIER=$1; shift
cd /verif
for S in "$@"; do
  for P in C01 C02 C03 C04 C05 C06 C07 C08 C09 C10 C11 C12 C13 C14 C15 C16 C17 C18 C19 C20; do
    OUT=$(VERIF_SEED=$S timeout 7200 ./bin/verifcheck run $P $TIER 2>&1); RC=$?
    echo "seed=$S $P rc=$RC $(echo "$OUT" | grep -E '^(HELD|VIOLATED|INCONCLUSIVE) ' | cut -c1-110)"
    if [ $RC -ne 0 ]; then echo "$OUT" | grep -E "^(VIOLATION|  key=|INCONCLUSIVE)" | cut -c1-400 | head -6; fi
  done
done
