#!/bin/bash
# try_seeded_wt.sh <abs patch.diff> <tier> <prop> [<prop>...]
# Like try_seeded.sh, but never touches /repo: the change is applied to a scratch git
# worktree, and the harness is built against that worktree through an alternative go.mod
# (-modfile). Safe to run while other checks are building from /repo.
PATCH="$1"; TIER="$2"; shift 2
export GOFLAGS=-mod=mod GOPROXY=off GOSUMDB=off GOTOOLCHAIN=local
WT=/tmp/repo-eval-$$
git -C /repo worktree add --detach $WT HEAD >/dev/null 2>&1 || { echo "worktree failed"; exit 2; }
trap 'git -C /repo worktree remove --force '$WT' >/dev/null 2>&1; rm -f /tmp/h-'$$'.mod /tmp/h-'$$'.sum /tmp/vc-eval-'$$ EXIT
if ! git -C $WT apply "$PATCH" 2>/dev/null; then echo "patch does not apply"; exit 2; fi
sed "s#=> /repo#=> $WT#" /verif/harness/go.mod > /tmp/h-$$.mod
cp /verif/harness/go.sum /tmp/h-$$.sum
( cd /verif/harness && go build -modfile=/tmp/h-$$.mod -tags verif -o /tmp/vc-eval-$$ ./cmd/verifcheck ) || { echo "BUILD FAILED"; exit 2; }
cd /verif
for P in "$@"; do
  OUT=$(VERIF_EVIDENCE_DIR=/tmp/eval-evidence timeout 3000 /tmp/vc-eval-$$ run "$P" "$TIER" 2>&1); RC=$?
  echo "== $P $TIER exit=$RC"
  echo "$OUT" | grep -E "^(VIOLATION|  key=|INCONCLUSIVE|HELD|VIOLATED|BUILD)" | cut -c1-400 | head -8
done
