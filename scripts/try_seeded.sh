#!/bin/bash
# try_seeded.sh <patch.diff> <tier> <prop> [<prop>...]
# Applies a seeded change to /repo, runs the given checks, and ALWAYS reverts it.
PATCH="$1"; TIER="$2"; shift 2
cd /repo || exit 2
if [ -n "$(git status --porcelain)" ]; then echo "/repo not clean"; exit 2; fi
if ! git apply --check "$PATCH" 2>/dev/null; then echo "patch does not apply"; exit 2; fi
git apply "$PATCH"
trap 'git -C /repo checkout -- . ; git -C /repo clean -fdq -- x app >/dev/null 2>&1' EXIT
cd /verif
for P in "$@"; do
  OUT=$(timeout 3000 ./check.sh "$P" "$TIER" 2>&1)
  RC=$?
  echo "== $P $TIER exit=$RC"
  echo "$OUT" | grep -E "^(VIOLATION|  key=|INCONCLUSIVE|HELD|VIOLATED|BUILD)" | cut -c1-400 | head -8
done
