#!/bin/bash
# validate_seeded.sh <outdir with patch.diff demo_test.go meta.json> <id>
# Confirms in a fresh scratch worktree: demo passes without the change, the change
# applies and builds, the demo fails with it, the repository's stable tests still pass.
OUT="$1"; ID="$2"
export GOFLAGS=-mod=mod GOPROXY=off GOSUMDB=off GOTOOLCHAIN=local
WT=/tmp/val-$ID
git -C /repo worktree remove --force $WT >/dev/null 2>&1
git -C /repo worktree add --detach $WT HEAD >/dev/null 2>&1 || { echo "worktree failed"; exit 2; }
trap 'git -C /repo worktree remove --force '$WT' >/dev/null 2>&1' EXIT
DEMO=$(python3 -c "import json;print(json.load(open('$OUT/meta.json'))['demo_path'])")
RUNPAT=$(grep -oE "func (Test[A-Za-z0-9_]+)" $OUT/demo_test.go | awk '{print $2}' | paste -sd'|')
PKG=./$(dirname $DEMO)/
mkdir -p $WT/$(dirname $DEMO) && cp $OUT/demo_test.go $WT/$DEMO
cd $WT
timeout 900 go test -mod=mod -vet=off -count=1 -run "^($RUNPAT)\$" $PKG > /tmp/val-$ID-without.log 2>&1; RC_WITHOUT=$?
git apply $OUT/patch.diff || { echo "PATCH DOES NOT APPLY"; exit 2; }
timeout 900 go build ./... > /tmp/val-$ID-build.log 2>&1; RC_BUILD=$?
timeout 900 go test -mod=mod -vet=off -count=1 -run "^($RUNPAT)\$" $PKG > /tmp/val-$ID-with.log 2>&1; RC_WITH=$?
rm -f $WT/$DEMO
timeout 1500 go test -mod=mod -json -vet=off -count=1 -timeout 25m ./... > /tmp/val-$ID-suite.json 2>/dev/null
python3 - /tmp/val-$ID-suite.json <<'PY'
import json,sys
base=json.load(open('/root/.vp/BASELINE.json'))
want=set(base['stable_pass'])
res={}
for l in open(sys.argv[1]):
    try: e=json.loads(l)
    except Exception: continue
    if e.get('Test') and e.get('Action') in('pass','fail','skip'):
        res[e['Package']+'::'+e['Test']]=e['Action']
bad=[t for t in sorted(want) if res.get(t)!='pass']
print("suite: stable=%d not_passing=%d"%(len(want),len(bad)))
for t in bad[:10]: print("   NOT PASSING:",t)
PY
echo "demo_without_change_rc=$RC_WITHOUT (want 0)  build_rc=$RC_BUILD (want 0)  demo_with_change_rc=$RC_WITH (want !=0)"
tail -3 /tmp/val-$ID-with.log | cut -c1-200
