#!/usr/bin/env python3
# Regenerates /verif/MANIFEST.json from the table below (keeps it schema-valid).
import json, subprocess

CLAIMED = {
 "C02": ("exploration", "generated emission configurations x 4-6 block-time partitions; cumulative mint vs exact schedule, path independence, per-period totals", "runtime monitoring: exact big.Rat reference schedule as online oracle; metamorphic partition comparison"),
 "C03": ("exploration", "generated sub-distributor configurations x multi-denomination inflows x governance updates; books == coins held after every block", "runtime monitoring: invariant hook after the distributor BeginBlocker + conservation ledger from bank events"),
 "C04": ("exploration", "same executions; closed exact model of the documented flow keyed by (type,id); per-destination cumulative assignment and holdings within 1 base unit; source-permutation twin", "runtime monitoring: executable reference model (big.Rat) compared online; metamorphic source-order twin"),
 "C05": ("exploration", "generated vesting histories through signed DeliverTx; module balance == pools, pool bounds, rejected tx changes nothing", "runtime monitoring: full state snapshots before/after every transaction, exact ledger identities"),
 "C06": ("exploration", "vesting histories with block times hugging every lock end; per-pool withdrawn delta, payout, response, repeated withdrawal, query agreement", "runtime monitoring: per-transaction state diff against the matured-set oracle"),
 "C07": ("exploration", "split/move-heavy histories + arithmetic sweep through the real message server incl. hostile rounding families; exact split-time oracle and later-time family oracle", "runtime monitoring: exact integer oracle on hooked state; hostile arithmetic generators"),
 "C08": ("exploration", "vesting histories; recipient account, amounts, schedule, sent counter, must-fail and must-succeed rules", "runtime monitoring: per-transaction oracle in big.Rat over observed account state"),
 "C09": ("exploration", "exhaustive message x target-state x signer cross product (144 combinations x seeds) + random histories; field-wise diff of every pre-existing account", "runtime monitoring: account-state diff across every custom message (cross product enumerated)"),
 "C14": ("fault_enumeration", "real distributor keeper around a fault-injecting bank wrapper: every single call among the first 30 failing alone, pairs, random subsets, kind-wide outages; books, exact model under the same faults, fault-free twin after a drained suffix", "runtime monitoring with fault injection at the keeper's bank interface; twin-run comparison"),
 "C17": ("exploration", "split/move-heavy histories from genesis and non-genesis roots; shadow lineage closure vs trace store; summaries recomputed from bank+auth", "runtime monitoring: shadow-state monitor compared with the trace store and query answers"),
 "C18": ("exploration", "mint / distribution / withdrawal / send events vs coinbase events, exact model assignments and per-pool ledger deltas", "runtime monitoring: event log checked offline against observed state changes"),
 "C19": ("exploration", "generated emission configurations x supplies x ms-aligned probe instants; |minted - I*S*dt/year| <= rigorous slack; zero-inflation states", "runtime monitoring: query answer vs observed emission over the next block, big.Rat oracle"),
}

CLAIMED.update({
 "C01": ("exploration", "full-application ABCI histories: generated emission x sub-distributor configuration with vesting/bank/staking traffic, governance updates, signature messages; per block supply delta == coinbase - burn events, coinbase == exact schedule, burn == exact distributor model's payout, supply == sum of balances, messages/EndBlock never move supply", "runtime monitoring: conservation ledger over bank events + reference models (big.Rat) next to the real code"),
 "C10": ("fault_enumeration", "full-application histories with governance updates at random points (all 7 update messages, times moved into past/future, periods dropped/appended, odd denominations), persistent transfer failures, and a genesis export -> fresh InitChain mid-history with both replicas continuing; no panic may escape BeginBlock/EndBlock/Commit", "runtime monitoring: recover() around ABCI calls over enumerated update/restart points and persistent natural faults"),
 "C11": ("exploration", "recorded histories (genesis, headers, tx bytes, governance and signature executions) replayed on a second application in-process and on fresh applications in separate OS processes; per-height digests of results, events and app hash must be byte-equal", "runtime monitoring: replica replay with per-height result digests (new process = new hash seeds); race-detector pass in thorough"),
 "C12": ("exploration", "export at random heights (also right after burns / period hand-overs): exported custom sections validate, InitChain does not panic, re-export is identical, custom stores are equal, original and restored app agree on 10-25 further blocks (balances, mint, tx codes, queries)", "runtime monitoring: state/behaviour equality between the original and the application restored from its exported genesis"),
 "C13": ("exploration", "sequences of all seven parameter-update messages with valid / invalid / only-jointly-invalid payloads and gov / foreign / empty / malformed authorities, through the governance path and real signed DeliverTx; stored params stay valid, rejected updates change nothing", "runtime monitoring: params-store byte comparison and the modules' own Validate() on every stored value"),
 "C15": ("exploration", "harness-generated ECDSA/RSA certificates; valid records and every single-field mutation stored through the real message server; independent crypto verification decides the expected VerifySignature answer; write-once links checked after every message and across commits", "runtime monitoring: independent verifier (crypto/ecdsa, crypto/rsa) as oracle + raw-store write-once monitor"),
 "C16": ("exploration", "pre-upgrade states staged in the previous store/param formats on the real app, registered v1.2.0 handler run through UpgradeKeeper.ApplyUpgrade; locked totals, pool histories, solvency, split all-or-nothing, shifted accounts, migrated params compared field for field", "runtime monitoring: before/after state comparison around the real upgrade handler on generated legacy states"),
 "C20": ("exploration", "reflection-driven boundary-value filling of every message type and query request of the four modules against populated and degraded states; ValidateBasic, GetSigners, handlers, signed-transaction route and queriers under recover; worker crash = violation", "runtime monitoring: panic detection (recover + ErrPanic results + process isolation) over generated hostile inputs"),
})
NOTES = {
 "C14": "injected faults fail before touching state; natural partial failures are covered by the locked-coin source of the generator",
 "C12": "one recorded finding (K1, /verif/known_findings.json): cfesignature genesis drops its store; everything else must be equal",
}

props = [json.loads(l) for l in open('/verif/properties.jsonl')]
checks = []
for p in props:
    pid = p['id']
    if pid not in CLAIMED:
        continue
    level, text, tech = CLAIMED[pid]
    checks.append({
        "property_id": pid,
        "quick_cmd": "./check.sh %s quick" % pid,
        "thorough_cmd": "./check.sh %s thorough" % pid,
        "evidence_file": "/verif/evidence/%s.json" % pid,
        "replay_cmd_template": "./bin/verifcheck replay {path}",
        "engine": "verifharness",
        "level_claimed": {"category": level, "text": text, "design_ref": "DESIGN.md §3 " + pid},
        "level_note": NOTES.get(pid, "held on the executions explored only (seeded generators; coverage counters in the evidence file); the oracle is independent big.Int/big.Rat code, the SDK (bank, auth, baseapp) is trusted"),
        "technique": tech,
    })
hooks = {"guard": "verif", "enable": "go build -tags verif (the harness imports /repo through a replace directive; no source hooks were needed)",
         "baseline_off_cmd": "/verif/scripts/baseline.sh", "source_commits": [], "add_only": True}
m = {"version": 1, "setup_cmd": "./setup.sh", "hooks": hooks,
     "engines": [{"name": "verifharness", "path": "/verif/harness", "serves_properties": sorted(CLAIMED), "kind_free_text": "Go: in-process ABCI driver over the real app, seeded generators, reference models, per-property monitors, worker-process isolation"}],
     "checks": checks,
     "not_applicable": [{"property_id": p['id'], "reason": "not claimed"} for p in props if p['id'] not in CLAIMED],
     "notes": "every check rebuilds the harness against /repo's working tree; exit 0 held, 1 violation (VIOLATION line + replay file), 2 inconclusive"}
json.dump(m, open('/verif/MANIFEST.json', 'w'), indent=1)
print("claimed:", sorted(CLAIMED))
