#!/bin/bash
# regress_seeded.sh [ids...]: re-evaluates archived seeded changes against the current harness
# (quick tier, the checks named in caught_by). Prints one line per change: CAUGHT / MISSED.
cd /verif
IDS="$@"
if [ -z "$IDS" ]; then IDS=$(python3 -c "import json;print(' '.join(e['id'] for e in json.load(open('seeded/INDEX.json'))))"); fi
for ID in $IDS; do
  PROPS=$(python3 - "$ID" <<'PY'
import json,re,sys
for e in json.load(open('/verif/seeded/INDEX.json')):
    if e['id']==sys.argv[1]:
        ps=[]
        for c in e.get('caught_by',[]):
            for p in re.findall(r'C\d\d', c.split('(')[0]):
                if p not in ps: ps.append(p)
        print(' '.join(ps))
PY
)
  OUT=$(./scripts/try_seeded_wt.sh /verif/seeded/$ID/patch.diff quick $PROPS 2>&1)
  RES=$(echo "$OUT" | grep -E "^== " | awk '{print $2 ":" $4}' | tr '\n' ' ')
  if echo "$OUT" | grep -q "exit=1"; then echo "CAUGHT $ID  $RES"; else echo "MISSED $ID  $RES  $(echo "$OUT" | grep -vE '^(==|HELD)' | head -2 | cut -c1-120)"; fi
done
