#!/bin/bash
# eval_seeded.sh <id> <outdir> <tier> <prop> [<prop>...] : validate a seeded change, run checks against it, archive it.
ID="$1"; OUT="$2"; TIER="$3"; shift 3
DEST=/verif/seeded/$ID
mkdir -p $DEST
cp $OUT/patch.diff $OUT/demo_test.go $OUT/meta.json $DEST/ 2>/dev/null
{
echo "### validation ($(date -u +%FT%TZ))"
/verif/scripts/validate_seeded.sh $OUT $ID
echo "### checks against the change"
/verif/scripts/try_seeded.sh $OUT/patch.diff $TIER "$@"
} 2>&1 | tee $DEST/eval.log | cut -c1-330
