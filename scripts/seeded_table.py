#!/usr/bin/env python3
# renders /verif/seeded/INDEX.json as the table of DESIGN.md section 8 and refreshes meta.json "ran" fields
import json,re
idx=json.load(open('/verif/seeded/INDEX.json'))
rows=["| id | breaks | change | needs to manifest | caught by | missed by / strengthening |","|----|--------|--------|-------------------|-----------|---------------------------|"]
for e in idx:
    missed='; '.join(e.get('missed_by',[])) or '-'
    if e.get('strengthened'): missed+=' -> '+e['strengthened']
    rows.append("| %s | %s | %s | %s | %s | %s |"%(e['id'],e['property'],e['summary'],e['needs'],'; '.join(e['caught_by']) or '**none**',missed))
    try:
        m=json.load(open('/verif/seeded/%s/meta.json'%e['id']))
        m['evaluated_here']={"validated_with":"scripts/validate_seeded.sh (fresh worktree: demo passes without / fails with the change, build ok, 550/550 stable tests pass)","checks_run":"scripts/try_seeded.sh <patch> quick ...","caught_by":e['caught_by'],"missed_by":e.get('missed_by',[]),"strengthened":e.get('strengthened','')}
        json.dump(m,open('/verif/seeded/%s/meta.json'%e['id'],'w'),indent=1)
    except Exception as ex:
        print("meta",e['id'],ex)
s=open('/verif/DESIGN.md').read()
table='\n'.join(rows)
if 'SEEDED_TABLE' in s:
    s=s.replace('SEEDED_TABLE','<!-- seeded-table-begin -->\n'+table+'\n<!-- seeded-table-end -->')
else:
    s=re.sub(r'<!-- seeded-table-begin -->.*<!-- seeded-table-end -->','<!-- seeded-table-begin -->\n'+table.replace('\\','\\\\')+'\n<!-- seeded-table-end -->',s,flags=re.S)
open('/verif/DESIGN.md','w').write(s)
print(len(idx),"entries")
