#!/bin/bash
# Runs the repository's own test suite with the verif guard OFF and checks that
# every test listed as stable_pass in /root/.vp/BASELINE.json passes.
export GOFLAGS=-mod=mod GOPROXY=off GOSUMDB=off GOTOOLCHAIN=local
OUT=${1:-/tmp/verif-baseline.json}
cd /repo && go test -mod=mod -json -vet=off -count=1 -timeout 25m ./... > "$OUT" 2>/dev/null
python3 - "$OUT" <<'PY'
import json,sys
base=json.load(open('/root/.vp/BASELINE.json'))
want=set(base['stable_pass'])
res={}
for l in open(sys.argv[1]):
    try: e=json.loads(l)
    except Exception: continue
    if e.get('Test') and e.get('Action') in('pass','fail','skip'):
        res[e['Package']+'::'+e['Test']]=e['Action']
bad=[t for t in sorted(want) if res.get(t)!='pass']
print("stable tests: %d, passing now: %d, not passing: %d"%(len(want),len(want)-len(bad),len(bad)))
for t in bad[:40]: print("  NOT PASSING:",t,res.get(t))
sys.exit(1 if bad else 0)
PY
