module verifharness

go 1.19

require (
	github.com/chain4energy/c4e-chain v0.0.0
	github.com/cosmos/cosmos-sdk v0.46.10
	github.com/gogo/protobuf v1.3.3
	github.com/tendermint/tendermint v0.34.26
	github.com/tendermint/tm-db v0.6.7
)

require (
	cloud.google.com/go v0.107.0 // indirect
	cloud.google.com/go/compute/metadata v0.2.3 // indirect
	cloud.google.com/go/iam v0.11.0 // indirect
	cloud.google.com/go/storage v1.27.0 // indirect
	cosmossdk.io/errors v1.0.0-beta.7 // indirect
	cosmossdk.io/math v1.0.0-beta.3 // indirect
	filippo.io/edwards25519 v1.0.0-rc.1 // indirect
	github.com/99designs/keyring v1.2.1 // indirect
	github.com/ChainSafe/go-schnorrkel v0.0.0-20200405005733-88cbf1b4c40d // indirect
	github.com/armon/go-metrics v0.4.1 // indirect
	github.com/aws/aws-sdk-go v1.40.45 // indirect
	github.com/beorn7/perks v1.0.1 // indirect
	github.com/bgentry/go-netrc v0.0.0-20140422174119-9fd32a8b3d3d // indirect
	github.com/bgentry/speakeasy v0.1.1-0.20220910012023-760eaf8b6816 // indirect
	github.com/btcsuite/btcd/btcec/v2 v2.3.2 // indirect
	github.com/cespare/xxhash/v2 v2.2.0 // indirect
	github.com/chzyer/readline v0.0.0-20180603132655-2972be24d48e // indirect
	github.com/cockroachdb/apd/v2 v2.0.2 // indirect
	github.com/confio/ics23/go v0.9.0 // indirect
	github.com/cosmos/btcutil v1.0.5 // indirect
	github.com/cosmos/cosmos-proto v1.0.0-alpha8 // indirect
	github.com/cosmos/go-bip39 v1.0.0 // indirect
	github.com/cosmos/iavl v0.19.5 // indirect
	github.com/cosmos/ibc-go/v5 v5.2.0 // indirect
	github.com/davecgh/go-spew v1.1.1 // indirect
	github.com/decred/dcrd/dcrec/secp256k1/v4 v4.0.1 // indirect
	github.com/dvsekhvalnov/jose2go v1.5.0 // indirect
	github.com/felixge/httpsnoop v1.0.1 // indirect
	github.com/fsnotify/fsnotify v1.6.0 // indirect
	github.com/go-kit/kit v0.12.0 // indirect
	github.com/go-kit/log v0.2.1 // indirect
	github.com/go-logfmt/logfmt v0.5.1 // indirect
	github.com/godbus/dbus v0.0.0-20190726142602-4481cbc300e2 // indirect
	github.com/gogo/gateway v1.1.0 // indirect
	github.com/golang/groupcache v0.0.0-20210331224755-41bb18bfe9da // indirect
	github.com/golang/protobuf v1.5.3 // indirect
	github.com/golang/snappy v0.0.4 // indirect
	github.com/google/btree v1.0.1 // indirect
	github.com/google/go-cmp v0.5.9 // indirect
	github.com/google/uuid v1.3.0 // indirect
	github.com/googleapis/enterprise-certificate-proxy v0.2.3 // indirect
	github.com/googleapis/gax-go/v2 v2.7.0 // indirect
	github.com/gorilla/handlers v1.5.1 // indirect
	github.com/gorilla/mux v1.8.0 // indirect
	github.com/gorilla/websocket v1.5.0 // indirect
	github.com/grpc-ecosystem/go-grpc-middleware v1.3.0 // indirect
	github.com/grpc-ecosystem/grpc-gateway v1.16.0 // indirect
	github.com/gsterjov/go-libsecret v0.0.0-20161001094733-a6f4afe4910c // indirect
	github.com/gtank/merlin v0.1.1 // indirect
	github.com/gtank/ristretto255 v0.1.2 // indirect
	github.com/hashicorp/go-cleanhttp v0.5.2 // indirect
	github.com/hashicorp/go-getter v1.6.1 // indirect
	github.com/hashicorp/go-immutable-radix v1.3.1 // indirect
	github.com/hashicorp/go-safetemp v1.0.0 // indirect
	github.com/hashicorp/go-version v1.6.0 // indirect
	github.com/hashicorp/golang-lru v0.5.5-0.20210104140557-80c98217689d // indirect
	github.com/hashicorp/hcl v1.0.0 // indirect
	github.com/hdevalence/ed25519consensus v0.0.0-20220222234857-c00d1f31bab3 // indirect
	github.com/jmespath/go-jmespath v0.4.0 // indirect
	github.com/klauspost/compress v1.15.11 // indirect
	github.com/libp2p/go-buffer-pool v0.1.0 // indirect
	github.com/magiconair/properties v1.8.6 // indirect
	github.com/manifoldco/promptui v0.9.0 // indirect
	github.com/mattn/go-isatty v0.0.16 // indirect
	github.com/matttproud/golang_protobuf_extensions v1.0.2-0.20181231171920-c182affec369 // indirect
	github.com/mimoo/StrobeGo v0.0.0-20210601165009-122bf33a46e0 // indirect
	github.com/mitchellh/go-homedir v1.1.0 // indirect
	github.com/mitchellh/go-testing-interface v1.0.0 // indirect
	github.com/mitchellh/mapstructure v1.5.0 // indirect
	github.com/mtibben/percent v0.2.1 // indirect
	github.com/pelletier/go-toml/v2 v2.0.5 // indirect
	github.com/pkg/errors v0.9.1 // indirect
	github.com/pmezard/go-difflib v1.0.0 // indirect
	github.com/prometheus/client_golang v1.14.0 // indirect
	github.com/prometheus/client_model v0.3.0 // indirect
	github.com/prometheus/common v0.37.0 // indirect
	github.com/prometheus/procfs v0.8.0 // indirect
	github.com/rakyll/statik v0.1.7 // indirect
	github.com/rcrowley/go-metrics v0.0.0-20201227073835-cf1acfcdf475 // indirect
	github.com/regen-network/cosmos-proto v0.3.1 // indirect
	github.com/spf13/afero v1.9.2 // indirect
	github.com/spf13/cast v1.5.0 // indirect
	github.com/spf13/cobra v1.6.1 // indirect
	github.com/spf13/jwalterweatherman v1.1.0 // indirect
	github.com/spf13/pflag v1.0.5 // indirect
	github.com/spf13/viper v1.14.0 // indirect
	github.com/stretchr/testify v1.8.1 // indirect
	github.com/subosito/gotenv v1.4.1 // indirect
	github.com/syndtr/goleveldb v1.0.1-0.20210819022825-2ae1ddf74ef7 // indirect
	github.com/tendermint/go-amino v0.16.0 // indirect
	github.com/tidwall/btree v1.5.0 // indirect
	github.com/ulikunitz/xz v0.5.8 // indirect
	go.opencensus.io v0.24.0 // indirect
	golang.org/x/crypto v0.5.0 // indirect
	golang.org/x/exp v0.0.0-20220722155223-a9213eeb770e // indirect
	golang.org/x/net v0.7.0 // indirect
	golang.org/x/oauth2 v0.5.0 // indirect
	golang.org/x/sys v0.5.0 // indirect
	golang.org/x/term v0.5.0 // indirect
	golang.org/x/text v0.7.0 // indirect
	golang.org/x/xerrors v0.0.0-20220907171357-04be3eba64a2 // indirect
	google.golang.org/api v0.110.0 // indirect
	google.golang.org/genproto v0.0.0-20230223222841-637eb2293923 // indirect
	google.golang.org/grpc v1.53.0 // indirect
	google.golang.org/protobuf v1.28.2-0.20220831092852-f930b1dc76e8
	gopkg.in/ini.v1 v1.67.0 // indirect
	gopkg.in/yaml.v2 v2.4.0 // indirect
	gopkg.in/yaml.v3 v3.0.1 // indirect
	sigs.k8s.io/yaml v1.3.0 // indirect
)

require (
	cloud.google.com/go/compute v1.18.0 // indirect
	github.com/99designs/go-keychain v0.0.0-20191008050251-8e49817e8af4 // indirect
	github.com/Azure/go-ansiterm v0.0.0-20210617225240-d185dfc1b5a1 // indirect
	github.com/Microsoft/go-winio v0.6.0 // indirect
	github.com/Nvveen/Gotty v0.0.0-20120604004816-cd527374f1e5 // indirect
	github.com/Workiva/go-datastructures v1.0.53 // indirect
	github.com/cenkalti/backoff/v4 v4.1.3 // indirect
	github.com/cespare/xxhash v1.1.0 // indirect
	github.com/coinbase/rosetta-sdk-go v0.7.9 // indirect
	github.com/containerd/continuity v0.3.0 // indirect
	github.com/cosmos/gorocksdb v1.2.0 // indirect
	github.com/cosmos/ledger-cosmos-go v0.12.2 // indirect
	github.com/creachadair/taskgroup v0.3.2 // indirect
	github.com/danieljoos/wincred v1.1.2 // indirect
	github.com/desertbit/timer v0.0.0-20180107155436-c41aec40b27f // indirect
	github.com/dgraph-io/badger/v2 v2.2007.4 // indirect
	github.com/dgraph-io/ristretto v0.1.0 // indirect
	github.com/dgryski/go-farm v0.0.0-20200201041132-a6ae2369ad13 // indirect
	github.com/docker/cli v20.10.14+incompatible // indirect
	github.com/docker/docker v20.10.19+incompatible // indirect
	github.com/docker/go-connections v0.4.0 // indirect
	github.com/docker/go-units v0.5.0 // indirect
	github.com/dustin/go-humanize v1.0.1-0.20200219035652-afde56e7acac // indirect
	github.com/go-playground/validator/v10 v10.4.1 // indirect
	github.com/golang/glog v1.0.0 // indirect
	github.com/google/gofuzz v1.2.0 // indirect
	github.com/google/orderedcode v0.0.1 // indirect
	github.com/google/shlex v0.0.0-20191202100458-e7afc7fbc510 // indirect
	github.com/imdario/mergo v0.3.13 // indirect
	github.com/improbable-eng/grpc-web v0.15.0 // indirect
	github.com/inconshreveable/mousetrap v1.0.1 // indirect
	github.com/jmhodges/levigo v1.0.0 // indirect
	github.com/lib/pq v1.10.6 // indirect
	github.com/mattn/go-colorable v0.1.13 // indirect
	github.com/minio/highwayhash v1.0.2 // indirect
	github.com/moby/term v0.0.0-20220808134915-39b0c02b01ae // indirect
	github.com/onsi/gomega v1.26.0 // indirect
	github.com/opencontainers/go-digest v1.0.0 // indirect
	github.com/opencontainers/image-spec v1.1.0-rc2 // indirect
	github.com/opencontainers/runc v1.1.3 // indirect
	github.com/ory/dockertest/v3 v3.9.1 // indirect
	github.com/pelletier/go-toml v1.9.5 // indirect
	github.com/petermattis/goid v0.0.0-20180202154549-b0b1615b78e5 // indirect
	github.com/rogpeppe/go-internal v1.9.0 // indirect
	github.com/rs/cors v1.8.2 // indirect
	github.com/rs/zerolog v1.27.0 // indirect
	github.com/sasha-s/go-deadlock v0.3.1 // indirect
	github.com/sirupsen/logrus v1.9.0 // indirect
	github.com/xeipuuv/gojsonpointer v0.0.0-20180127040702-4e3ac2762d5f // indirect
	github.com/xeipuuv/gojsonreference v0.0.0-20180127040603-bd5ef7bd5415 // indirect
	github.com/xeipuuv/gojsonschema v1.2.0 // indirect
	github.com/zondax/hid v0.9.1 // indirect
	github.com/zondax/ledger-go v0.14.1 // indirect
	go.etcd.io/bbolt v1.3.6 // indirect
	golang.org/x/mod v0.7.0 // indirect
	golang.org/x/tools v0.4.0 // indirect
	google.golang.org/appengine v1.6.7 // indirect
	nhooyr.io/websocket v1.8.6 // indirect
)

replace (
	github.com/chain4energy/c4e-chain => /repo
	github.com/gogo/protobuf => github.com/regen-network/protobuf v1.3.3-alpha.regen.1
	github.com/tendermint/tendermint => github.com/informalsystems/tendermint v0.34.26
	k8s.io/kubernetes/staging/src/k8s.io/apimachinery => k8s.io/apimachinery v0.27.0-alpha.2
)
