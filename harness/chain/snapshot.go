package chain

import (
	"bytes"
	"encoding/hex"
	"fmt"
	"math/big"
	"sort"
	"strings"

	sdk "github.com/cosmos/cosmos-sdk/types"
	authtypes "github.com/cosmos/cosmos-sdk/x/auth/types"
	banktypes "github.com/cosmos/cosmos-sdk/x/bank/types"
	abci "github.com/tendermint/tendermint/abci/types"
)

// CustomStores are the KV stores owned by the repository's modules.
var CustomStores = []string{"cfevesting", "cfeminter", "cfedistributor", "cfesignature"}

// Snapshot is a full observation of the uncommitted state.
type Snapshot struct {
	Supply   map[string]*big.Int            // denom -> amount
	Balances map[string]map[string]*big.Int // address -> denom -> amount
	Accounts map[string]string              // address -> canonical JSON of the auth account
	Stores   map[string]map[string]string   // store -> hex(key) -> hex(value)
}

func bi(i sdk.Int) *big.Int { return new(big.Int).Set(i.BigInt()) }

// Snap takes a snapshot of ctx.
func (n *Node) Snap() *Snapshot { return n.SnapCtx(n.Ctx()) }

func (n *Node) SnapCtx(ctx sdk.Context) *Snapshot {
	s := &Snapshot{Supply: map[string]*big.Int{}, Balances: map[string]map[string]*big.Int{}, Accounts: map[string]string{}, Stores: map[string]map[string]string{}}
	n.App.BankKeeper.IterateTotalSupply(ctx, func(c sdk.Coin) bool {
		s.Supply[c.Denom] = bi(c.Amount)
		return false
	})
	n.App.BankKeeper.IterateAllBalances(ctx, func(addr sdk.AccAddress, c sdk.Coin) bool {
		a := addr.String()
		if s.Balances[a] == nil {
			s.Balances[a] = map[string]*big.Int{}
		}
		s.Balances[a][c.Denom] = bi(c.Amount)
		return false
	})
	n.App.AccountKeeper.IterateAccounts(ctx, func(acc authtypes.AccountI) bool {
		bz, err := n.Enc.Marshaler.MarshalInterfaceJSON(acc)
		if err != nil {
			s.Accounts[acc.GetAddress().String()] = "marshal-error:" + err.Error()
		} else {
			s.Accounts[acc.GetAddress().String()] = string(bz)
		}
		return false
	})
	for _, name := range CustomStores {
		key := n.App.GetKey(name)
		if key == nil {
			continue
		}
		m := map[string]string{}
		it := ctx.KVStore(key).Iterator(nil, nil)
		for ; it.Valid(); it.Next() {
			m[hex.EncodeToString(it.Key())] = hex.EncodeToString(it.Value())
		}
		it.Close()
		s.Stores[name] = m
	}
	return s
}

// Bal returns the balance (0 if none).
func (s *Snapshot) Bal(addr, denom string) *big.Int {
	if m, ok := s.Balances[addr]; ok {
		if v, ok := m[denom]; ok {
			return v
		}
	}
	return new(big.Int)
}

// Sup returns the supply of denom.
func (s *Snapshot) Sup(denom string) *big.Int {
	if v, ok := s.Supply[denom]; ok {
		return v
	}
	return new(big.Int)
}

// Denoms lists every denom that occurs in supply or balances.
func (s *Snapshot) Denoms() []string {
	set := map[string]bool{}
	for d := range s.Supply {
		set[d] = true
	}
	for _, m := range s.Balances {
		for d := range m {
			set[d] = true
		}
	}
	var out []string
	for d := range set {
		out = append(out, d)
	}
	sort.Strings(out)
	return out
}

// SumBalances is the sum of all balances of a denom.
func (s *Snapshot) SumBalances(denom string) *big.Int {
	t := new(big.Int)
	for _, m := range s.Balances {
		if v, ok := m[denom]; ok {
			t.Add(t, v)
		}
	}
	return t
}

// BalanceDeltas returns addr -> denom -> (after-before) for non-zero deltas.
func BalanceDeltas(before, after *Snapshot) map[string]map[string]*big.Int {
	out := map[string]map[string]*big.Int{}
	addrs := map[string]bool{}
	for a := range before.Balances {
		addrs[a] = true
	}
	for a := range after.Balances {
		addrs[a] = true
	}
	for a := range addrs {
		ds := map[string]bool{}
		for d := range before.Balances[a] {
			ds[d] = true
		}
		for d := range after.Balances[a] {
			ds[d] = true
		}
		for d := range ds {
			diff := new(big.Int).Sub(after.Bal(a, d), before.Bal(a, d))
			if diff.Sign() != 0 {
				if out[a] == nil {
					out[a] = map[string]*big.Int{}
				}
				out[a][d] = diff
			}
		}
	}
	return out
}

// DiffStores lists "store/key" entries that differ between two snapshots.
func DiffStores(a, b *Snapshot) []string {
	var out []string
	for _, st := range CustomStores {
		ma, mb := a.Stores[st], b.Stores[st]
		keys := map[string]bool{}
		for k := range ma {
			keys[k] = true
		}
		for k := range mb {
			keys[k] = true
		}
		for k := range keys {
			if ma[k] != mb[k] {
				kb, _ := hex.DecodeString(k)
				out = append(out, fmt.Sprintf("%s/%q", st, string(kb)))
			}
		}
	}
	sort.Strings(out)
	return out
}

// DiffAccounts lists addresses whose auth account JSON differs (or appears /
// disappears).
func DiffAccounts(a, b *Snapshot) []string {
	var out []string
	keys := map[string]bool{}
	for k := range a.Accounts {
		keys[k] = true
	}
	for k := range b.Accounts {
		keys[k] = true
	}
	for k := range keys {
		if a.Accounts[k] != b.Accounts[k] {
			out = append(out, k)
		}
	}
	sort.Strings(out)
	return out
}

// DiffSupply lists denoms whose supply differs.
func DiffSupply(a, b *Snapshot) []string {
	var out []string
	keys := map[string]bool{}
	for k := range a.Supply {
		keys[k] = true
	}
	for k := range b.Supply {
		keys[k] = true
	}
	for k := range keys {
		if a.Sup(k).Cmp(b.Sup(k)) != 0 {
			out = append(out, k)
		}
	}
	sort.Strings(out)
	return out
}

// ---- events ----

// Ev is a flattened ABCI event.
type Ev struct {
	Type  string
	Attrs map[string]string
	Keys  []string
}

func Flatten(events []abci.Event) []Ev {
	out := make([]Ev, 0, len(events))
	for _, e := range events {
		ev := Ev{Type: e.Type, Attrs: map[string]string{}}
		for _, a := range e.Attributes {
			k := string(a.Key)
			ev.Attrs[k] = string(a.Value)
			ev.Keys = append(ev.Keys, k)
		}
		out = append(out, ev)
	}
	return out
}

// Unq strips the JSON quotes typed events put around string values.
func Unq(s string) string {
	if len(s) >= 2 && s[0] == '"' && s[len(s)-1] == '"' {
		return s[1 : len(s)-1]
	}
	return s
}

// ParseCoins parses "12uc4e,3foo" into denom->amount.
func ParseCoins(s string) (map[string]*big.Int, error) {
	out := map[string]*big.Int{}
	if strings.TrimSpace(s) == "" {
		return out, nil
	}
	coins, err := sdk.ParseCoinsNormalized(s)
	if err != nil {
		return nil, err
	}
	for _, c := range coins {
		out[c.Denom] = bi(c.Amount)
	}
	return out, nil
}

// BankLedger sums coinbase / burn amounts (per denom, with the acting account)
// and collects transfers out of the events of one ABCI response.
type BankLedger struct {
	Minted    map[string]*big.Int
	Burned    map[string]*big.Int
	Minters   map[string]bool
	Burners   map[string]bool
	Transfers []Transfer
}

type Transfer struct {
	From, To string
	Coins    map[string]*big.Int
}

func addInto(m map[string]*big.Int, c map[string]*big.Int) {
	for d, v := range c {
		if m[d] == nil {
			m[d] = new(big.Int)
		}
		m[d].Add(m[d], v)
	}
}

func Ledger(events []abci.Event) (*BankLedger, error) {
	l := &BankLedger{Minted: map[string]*big.Int{}, Burned: map[string]*big.Int{}, Minters: map[string]bool{}, Burners: map[string]bool{}}
	for _, e := range Flatten(events) {
		switch e.Type {
		case banktypes.EventTypeCoinMint:
			c, err := ParseCoins(e.Attrs["amount"])
			if err != nil {
				return nil, err
			}
			addInto(l.Minted, c)
			l.Minters[e.Attrs["minter"]] = true
		case banktypes.EventTypeCoinBurn:
			c, err := ParseCoins(e.Attrs["amount"])
			if err != nil {
				return nil, err
			}
			addInto(l.Burned, c)
			l.Burners[e.Attrs["burner"]] = true
		case banktypes.EventTypeTransfer:
			c, err := ParseCoins(e.Attrs["amount"])
			if err != nil {
				return nil, err
			}
			l.Transfers = append(l.Transfers, Transfer{From: e.Attrs["sender"], To: e.Attrs["recipient"], Coins: c})
		}
	}
	return l, nil
}

// ModuleAddr returns the bech32 address of a module account name.
func ModuleAddr(name string) string { return authtypes.NewModuleAddress(name).String() }

// EqualBytes is a tiny helper for digests.
func EqualBytes(a, b []byte) bool { return bytes.Equal(a, b) }
