// Package chain drives the real c4e-chain application in-process through its
// ABCI entry points and exposes the observation points the monitors need.
package chain

import (
	"io"
	"crypto/sha256"
	"encoding/hex"
	"encoding/json"
	"fmt"
	"github.com/cosmos/cosmos-sdk/baseapp"
	"hash"
	"math/rand"
	"runtime/debug"
	"time"

	c4eapp "github.com/chain4energy/c4e-chain/app"
	appparams "github.com/chain4energy/c4e-chain/app/params"
	disttypes "github.com/chain4energy/c4e-chain/x/cfedistributor/types"
	minttypes "github.com/chain4energy/c4e-chain/x/cfeminter/types"
	vesttypes "github.com/chain4energy/c4e-chain/x/cfevesting/types"
	codectypes "github.com/cosmos/cosmos-sdk/codec/types"
	cryptocodec "github.com/cosmos/cosmos-sdk/crypto/codec"
	"github.com/cosmos/cosmos-sdk/crypto/keys/ed25519"
	"github.com/cosmos/cosmos-sdk/crypto/keys/secp256k1"
	cryptotypes "github.com/cosmos/cosmos-sdk/crypto/types"
	"github.com/cosmos/cosmos-sdk/simapp"
	"github.com/cosmos/cosmos-sdk/simapp/helpers"
	sdk "github.com/cosmos/cosmos-sdk/types"
	authtypes "github.com/cosmos/cosmos-sdk/x/auth/types"
	banktypes "github.com/cosmos/cosmos-sdk/x/bank/types"
	govtypes "github.com/cosmos/cosmos-sdk/x/gov/types"
	govv1 "github.com/cosmos/cosmos-sdk/x/gov/types/v1"
	slashingtypes "github.com/cosmos/cosmos-sdk/x/slashing/types"
	stakingtypes "github.com/cosmos/cosmos-sdk/x/staking/types"
	abci "github.com/tendermint/tendermint/abci/types"
	"github.com/tendermint/tendermint/libs/log"
	tmproto "github.com/tendermint/tendermint/proto/tendermint/types"
	dbm "github.com/tendermint/tm-db"
)

const ChainID = "verif-chain"

// Key is a deterministic secp256k1 key derived from a label.
type Key struct {
	Priv cryptotypes.PrivKey
	Addr sdk.AccAddress
}

func NewKey(label string) Key {
	priv := secp256k1.GenPrivKeyFromSecret([]byte("verif-key-" + label))
	return Key{Priv: priv, Addr: sdk.AccAddress(priv.PubKey().Address())}
}

func (k Key) Bech() string { return k.Addr.String() }

// GenAccount describes a genesis account.
type GenAccount struct {
	Account authtypes.GenesisAccount
	Coins   sdk.Coins
}

// GenesisSpec is everything a monitor can choose about the initial state.
type GenesisSpec struct {
	Time        time.Time
	BondDenom   string
	Accounts    []GenAccount
	Minter      *minttypes.GenesisState
	Distributor *disttypes.GenesisState
	Vesting     *vesttypes.GenesisState
	// ExtraBalances are balances of addresses that need no auth account entry
	// (module accounts that are materialised lazily).
	ExtraBalances []banktypes.Balance
	// VestingModuleSurplus is added to the balance the vesting module account is funded with
	// (normally exactly the sum locked in the genesis pools).
	VestingModuleSurplus int64
	// OmitICA leaves the interchainaccounts section out (needed by C16).
	OmitICA bool
	// Mutate allows last-minute edits of the raw genesis map.
	Mutate func(gs c4eapp.GenesisState, app *c4eapp.App)
}

// Node is one in-process replica.
type Node struct {
	App        *c4eapp.App
	Enc        appparams.EncodingConfig
	Height     int64
	Time       time.Time
	ValCons    []byte // consensus address of the single validator
	ValOper    sdk.ValAddress
	Delegator  Key
	InBlock    bool
	hasDeliver bool
	rnd        *rand.Rand
	// History records everything needed to replay the chain on another replica.
	Genesis []byte
	Log     []Step
	Record  bool
	// Digests holds one digest per committed height (when Record is set): everything
	// Tendermint hashes or stores about the block's results plus the app hash.
	Digests []string
	dig     hash.Hash
	GenTime time.Time
	db      dbm.DB
}

// Step is one replayable ABCI action.
type Step struct {
	Kind   string    `json:"kind"` // "begin", "tx", "gov", "sig", "end"
	Time   time.Time `json:"time"`
	Tx     []byte    `json:"tx,omitempty"`
	GovMsg []byte    `json:"msg,omitempty"` // Any-packed proto message (gov execution / signature message server)
}

func newApp() (*c4eapp.App, appparams.EncodingConfig) {
	app, enc, _ := newAppDB(dbm.NewMemDB())
	return app, enc
}

// AppOptions are the node-operator options the next applications are built with (nil =
// defaults). Operators legitimately differ in them, e.g. --x-crisis-skip-assert-invariants.
var AppOptions map[string]interface{}

// DebugLogger gives the next applications a logger that writes every level (to nowhere).
var DebugLogger bool

// InvCheckPeriod is the --inv-check-period of the next applications (0 = never).
var InvCheckPeriod uint

type optMap map[string]interface{}

func (m optMap) Get(k string) interface{} { return m[k] }

func newAppDB(db dbm.DB) (*c4eapp.App, appparams.EncodingConfig, dbm.DB) {
	encoding := c4eapp.MakeEncodingConfig()
	enc := appparams.EncodingConfig(encoding)
	var bopts []func(*baseapp.BaseApp)
	if v, ok := AppOptions["minimum-gas-prices"].(string); ok && v != "" {
		// the node binary hands the setting to baseapp as well (it only matters for CheckTx)
		bopts = append(bopts, baseapp.SetMinGasPrices(v))
	}
	var logger log.Logger = log.NewNopLogger()
	if DebugLogger {
		// a node running with log_level debug: every log call formats its values
		logger = log.NewTMLogger(log.NewSyncWriter(io.Discard))
	}
	app := c4eapp.New(logger, db, nil, true, map[int64]bool{}, c4eapp.DefaultNodeHome, InvCheckPeriod, enc, optMap(AppOptions), bopts...)
	return app, enc, db
}

// DefaultMinterGenesis returns a no-minting genesis with explicit state.
func DefaultMinterGenesis(t time.Time) *minttypes.GenesisState {
	cfg, _ := codectypes.NewAnyWithValue(&minttypes.NoMinting{})
	return &minttypes.GenesisState{
		Params: minttypes.Params{MintDenom: "uc4e", StartTime: t, Minters: []*minttypes.Minter{{SequenceId: 1, Config: cfg}}},
		MinterState: minttypes.MinterState{SequenceId: 1, AmountMinted: sdk.ZeroInt(), RemainderToMint: sdk.ZeroDec(),
			LastMintBlockTime: t, RemainderFromPreviousMinter: sdk.ZeroDec()},
	}
}

// BuildGenesis produces the genesis JSON for a spec.
func BuildGenesis(app *c4eapp.App, enc appparams.EncodingConfig, spec GenesisSpec) ([]byte, Key, []byte, sdk.ValAddress, error) {
	cdc := enc.Marshaler
	gs := c4eapp.NewDefaultGenesisState(cdc)
	bond := spec.BondDenom
	if bond == "" {
		bond = "uc4e"
	}
	valPriv := ed25519.GenPrivKeyFromSecret([]byte("verif-validator"))
	valPub := valPriv.PubKey()
	tmPub, err := cryptocodec.ToTmPubKeyInterface(valPub)
	if err != nil {
		return nil, Key{}, nil, nil, err
	}
	consAddr := tmPub.Address()
	delegator := NewKey("delegator")

	accs := []authtypes.GenesisAccount{authtypes.NewBaseAccount(delegator.Addr, nil, 0, 0)}
	balances := []banktypes.Balance{{Address: delegator.Bech(), Coins: sdk.NewCoins(sdk.NewCoin(bond, sdk.NewInt(1000000)))}}
	for _, a := range spec.Accounts {
		accs = append(accs, a.Account)
		if !a.Coins.IsZero() {
			balances = append(balances, banktypes.Balance{Address: a.Account.GetAddress().String(), Coins: a.Coins})
		}
	}
	balances = append(balances, spec.ExtraBalances...)
	authGen := authtypes.NewGenesisState(authtypes.DefaultParams(), accs)
	gs[authtypes.ModuleName] = cdc.MustMarshalJSON(authGen)

	pkAny, err := codectypes.NewAnyWithValue(valPub)
	if err != nil {
		return nil, Key{}, nil, nil, err
	}
	bondAmt := sdk.DefaultPowerReduction
	valOper := sdk.ValAddress(consAddr)
	validator := stakingtypes.Validator{
		OperatorAddress: valOper.String(), ConsensusPubkey: pkAny, Status: stakingtypes.Bonded,
		Tokens: bondAmt, DelegatorShares: sdk.OneDec(), UnbondingTime: time.Unix(0, 0).UTC(),
		Commission:        stakingtypes.NewCommission(sdk.ZeroDec(), sdk.ZeroDec(), sdk.ZeroDec()),
		MinSelfDelegation: sdk.ZeroInt(),
	}
	sp := stakingtypes.DefaultParams()
	sp.BondDenom = bond
	stakingGen := stakingtypes.NewGenesisState(sp, []stakingtypes.Validator{validator},
		[]stakingtypes.Delegation{stakingtypes.NewDelegation(delegator.Addr, valOper, sdk.OneDec())})
	gs[stakingtypes.ModuleName] = cdc.MustMarshalJSON(stakingGen)
	slGen := slashingtypes.DefaultGenesisState()
	slGen.SigningInfos = []slashingtypes.SigningInfo{{Address: sdk.ConsAddress(consAddr).String(),
		ValidatorSigningInfo: slashingtypes.NewValidatorSigningInfo(sdk.ConsAddress(consAddr), 0, 0, time.Unix(0, 0).UTC(), false, 0)}}
	gs[slashingtypes.ModuleName] = cdc.MustMarshalJSON(slGen)
	balances = append(balances, banktypes.Balance{
		Address: authtypes.NewModuleAddress(stakingtypes.BondedPoolName).String(),
		Coins:   sdk.NewCoins(sdk.NewCoin(bond, bondAmt)),
	})

	vg := spec.Vesting
	if vg == nil {
		vg = vesttypes.DefaultGenesis()
	}
	locked := sdk.ZeroInt()
	for _, avp := range vg.AccountVestingPools {
		for _, p := range avp.VestingPools {
			locked = locked.Add(p.GetCurrentlyLocked())
		}
	}
	locked = locked.AddRaw(spec.VestingModuleSurplus)
	if locked.IsPositive() {
		balances = append(balances, banktypes.Balance{
			Address: authtypes.NewModuleAddress(vesttypes.ModuleName).String(),
			Coins:   sdk.NewCoins(sdk.NewCoin(vg.Params.Denom, locked)),
		})
	}
	gs[vesttypes.ModuleName] = cdc.MustMarshalJSON(vg)

	dg := spec.Distributor
	if dg == nil {
		dg = disttypes.DefaultGenesis()
	}
	gs[disttypes.ModuleName] = cdc.MustMarshalJSON(dg)

	mg := spec.Minter
	if mg == nil {
		mg = DefaultMinterGenesis(spec.Time)
	}
	gs[minttypes.ModuleName] = cdc.MustMarshalJSON(mg)

	{
		var gg govv1.GenesisState
		cdc.MustUnmarshalJSON(gs[govtypes.ModuleName], &gg)
		vp := 10 * time.Second
		gg.VotingParams.VotingPeriod = &vp
		gg.DepositParams.MinDeposit = sdk.NewCoins(sdk.NewCoin(bond, sdk.NewInt(1)))
		gs[govtypes.ModuleName] = cdc.MustMarshalJSON(&gg)
	}
	// merge duplicate balance addresses, compute supply
	merged := map[string]sdk.Coins{}
	var order []string
	for _, b := range balances {
		if _, ok := merged[b.Address]; !ok {
			order = append(order, b.Address)
		}
		merged[b.Address] = merged[b.Address].Add(b.Coins...)
	}
	var final []banktypes.Balance
	supply := sdk.NewCoins()
	for _, a := range order {
		final = append(final, banktypes.Balance{Address: a, Coins: merged[a]})
		supply = supply.Add(merged[a]...)
	}
	bankGen := banktypes.NewGenesisState(banktypes.DefaultGenesisState().Params, final, supply, []banktypes.Metadata{})
	gs[banktypes.ModuleName] = cdc.MustMarshalJSON(bankGen)

	if spec.OmitICA {
		delete(gs, "interchainaccounts")
	}
	if spec.Mutate != nil {
		spec.Mutate(gs, app)
	}
	bz, err := json.Marshal(gs)
	if err != nil {
		return nil, Key{}, nil, nil, err
	}
	return bz, delegator, consAddr, valOper, nil
}

// NewNode builds an app, runs InitChain with the spec and opens block 1 is NOT
// started: the caller calls BeginBlock.
func NewNode(spec GenesisSpec) (n *Node, err error) {
	app, enc := newApp()
	bz, del, cons, oper, err := BuildGenesis(app, enc, spec)
	if err != nil {
		return nil, err
	}
	n = &Node{App: app, Enc: enc, Delegator: del, ValCons: cons, ValOper: oper, rnd: rand.New(rand.NewSource(1)), Genesis: bz}
	if err := n.initChain(bz, spec.Time, 1); err != nil {
		return nil, err
	}
	return n, nil
}

// NewNodeFromGenesis starts a replica from raw genesis bytes (replay / import).
func NewNodeFromGenesis(genesis []byte, t time.Time, initialHeight int64) (*Node, error) {
	app, enc, db := newAppDB(dbm.NewMemDB())
	valPriv := ed25519.GenPrivKeyFromSecret([]byte("verif-validator"))
	tmPub, _ := cryptocodec.ToTmPubKeyInterface(valPriv.PubKey())
	cons := tmPub.Address()
	n := &Node{App: app, Enc: enc, Delegator: NewKey("delegator"), ValCons: cons, ValOper: sdk.ValAddress(cons),
		rnd: rand.New(rand.NewSource(1)), Genesis: genesis, db: db}
	if err := n.initChain(genesis, t, initialHeight); err != nil {
		return nil, err
	}
	return n, nil
}

func (n *Node) initChain(genesis []byte, t time.Time, initialHeight int64) (err error) {
	defer func() {
		if r := recover(); r != nil {
			err = &PanicError{Where: "InitChain", Value: fmt.Sprint(r), Stack: string(debug.Stack())}
		}
	}()
	// no block gas limit: histories put many large-gas-limit transactions into one block and a
	// "no block gas left" rejection would be an artefact of the driver, not of the code under test
	cp := *simapp.DefaultConsensusParams
	blk := *cp.Block
	blk.MaxGas = -1
	cp.Block = &blk
	n.App.InitChain(abci.RequestInitChain{
		ChainId: ChainID, Time: t, ConsensusParams: &cp,
		Validators: []abci.ValidatorUpdate{}, AppStateBytes: genesis, InitialHeight: initialHeight,
	})
	n.Height = initialHeight - 1
	n.Time = t
	n.GenTime = t
	n.hasDeliver = true
	return nil
}

// PanicError carries a recovered panic.
type PanicError struct {
	Where string
	Value string
	Stack string
}

func (p *PanicError) Error() string { return "panic in " + p.Where + ": " + p.Value }

func (n *Node) header(t time.Time) tmproto.Header {
	return tmproto.Header{ChainID: ChainID, Height: n.Height + 1, Time: t, ProposerAddress: n.ValCons}
}

// BeginBlock opens the next block at time t. A panic is returned as *PanicError.
func (n *Node) BeginBlock(t time.Time) (res abci.ResponseBeginBlock, err error) {
	if n.InBlock {
		return res, fmt.Errorf("BeginBlock inside a block")
	}
	if n.Record {
		n.Log = append(n.Log, Step{Kind: "begin", Time: t})
	}
	defer func() {
		if r := recover(); r != nil {
			err = &PanicError{Where: "BeginBlock", Value: fmt.Sprint(r), Stack: string(debug.Stack())}
		}
	}()
	hdr := n.header(t)
	req := abci.RequestBeginBlock{Header: hdr, LastCommitInfo: abci.LastCommitInfo{
		Votes: []abci.VoteInfo{{Validator: abci.Validator{Address: n.ValCons, Power: 1}, SignedLastBlock: true}},
	}}
	n.Time = t
	res = n.App.BeginBlock(req)
	n.InBlock = true
	n.hasDeliver = true
	if n.Record {
		n.dig = sha256.New()
		n.digestEvents("begin", res.Events)
	}
	return res, nil
}

// EndBlock closes and commits the block.
func (n *Node) EndBlock() (res abci.ResponseEndBlock, appHash []byte, err error) {
	if n.Record {
		n.Log = append(n.Log, Step{Kind: "end"})
	}
	defer func() {
		if r := recover(); r != nil {
			err = &PanicError{Where: "EndBlock", Value: fmt.Sprint(r), Stack: string(debug.Stack())}
		}
	}()
	res = n.App.EndBlock(abci.RequestEndBlock{Height: n.Height + 1})
	c := n.App.Commit()
	if n.Record && n.dig != nil {
		n.digestEvents("end", res.Events)
		for _, vu := range res.ValidatorUpdates {
			bz, _ := vu.Marshal()
			n.dig.Write(bz)
		}
		n.dig.Write(c.Data)
		n.Digests = append(n.Digests, hex.EncodeToString(n.dig.Sum(nil)))
		n.dig = nil
	}
	n.Height++
	n.InBlock = false
	n.hasDeliver = false
	return res, c.Data, nil
}

// Ctx returns a context on the uncommitted deliver state of the open block.
func (n *Node) Ctx() sdk.Context {
	hdr := n.header(n.Time)
	if !n.InBlock {
		hdr.Height = n.Height
	}
	if !n.hasDeliver {
		// between Commit and the next BeginBlock: read the committed state
		return n.App.BaseApp.NewUncachedContext(false, hdr)
	}
	return n.App.BaseApp.NewContext(false, hdr)
}

// SignTx builds a signed transaction for msgs from key (account number and
// sequence are read from the current deliver state).
func (n *Node) SignTx(key Key, fee sdk.Coins, gas uint64, msgs ...sdk.Msg) ([]byte, error) {
	var accNum, seq uint64
	if acc := n.App.AccountKeeper.GetAccount(n.Ctx(), key.Addr); acc != nil {
		accNum, seq = acc.GetAccountNumber(), acc.GetSequence()
	}
	return n.SignTxWith(key, accNum, seq, fee, gas, msgs...)
}

func (n *Node) SignTxWith(key Key, accNum, seq uint64, fee sdk.Coins, gas uint64, msgs ...sdk.Msg) (bz []byte, err error) {
	defer func() {
		if r := recover(); r != nil {
			err = &PanicError{Where: "SignTx", Value: fmt.Sprint(r), Stack: string(debug.Stack())}
		}
	}()
	tx, err := helpers.GenSignedMockTx(n.rnd, n.Enc.TxConfig, msgs, fee, gas, ChainID, []uint64{accNum}, []uint64{seq}, key.Priv)
	if err != nil {
		return nil, err
	}
	return n.Enc.TxConfig.TxEncoder()(tx)
}

// DeliverTxBytes delivers raw tx bytes.
func (n *Node) DeliverTxBytes(bz []byte) (res abci.ResponseDeliverTx, err error) {
	if n.Record {
		n.Log = append(n.Log, Step{Kind: "tx", Tx: bz})
	}
	defer func() {
		if r := recover(); r != nil {
			err = &PanicError{Where: "DeliverTx", Value: fmt.Sprint(r), Stack: string(debug.Stack())}
		}
	}()
	res = n.App.DeliverTx(abci.RequestDeliverTx{Tx: bz})
	if n.Record && n.dig != nil {
		gasUsed := res.GasUsed
		if res.Code != 0 && res.GasWanted == 0 {
			// cosmos-sdk 0.46 quirk: a transaction rejected before the ante handler set up its
			// own gas meter (decoding / ValidateBasic) reports the gas the block context has
			// consumed so far, which includes node-local work such as the capability module's
			// InitMemStore after a restart. Upstream behaviour, not the repository's: left out.
			gasUsed = 0
		}
		fmt.Fprintf(n.dig, "tx|%d|%s|%d|", res.Code, res.Codespace, gasUsed)
		n.dig.Write(res.Data)
		n.digestEvents("txev", res.Events)
	}
	return res, nil
}

func (n *Node) digestEvents(tag string, evs []abci.Event) {
	if n.dig == nil {
		return
	}
	fmt.Fprintf(n.dig, "%s|%d|", tag, len(evs))
	for _, e := range evs {
		bz, _ := e.Marshal()
		n.dig.Write(bz)
	}
}

// DigestNote mixes an out-of-band execution result (governance / message-server
// execution) into the block digest.
func (n *Node) DigestNote(tag string, ok bool, evs []abci.Event) {
	if n.Record && n.dig != nil {
		fmt.Fprintf(n.dig, "%s|%v|", tag, ok)
		n.digestEvents(tag, evs)
	}
}

// EncodeMsg Any-packs and marshals a message; it fails (instead of panicking)
// for messages that have no wire representation.
func (n *Node) EncodeMsg(msg sdk.Msg) (bz []byte, err error) {
	defer func() {
		if r := recover(); r != nil {
			err = fmt.Errorf("message is not encodable: %v", r)
		}
	}()
	any, err := codectypes.NewAnyWithValue(msg)
	if err != nil {
		return nil, err
	}
	return n.Enc.Marshaler.Marshal(any)
}

// RecordMsg appends a replayable out-of-band message step.
func (n *Node) RecordMsg(kind string, msg sdk.Msg) {
	if !n.Record {
		return
	}
	bz, err := n.EncodeMsg(msg)
	if err != nil {
		return
	}
	n.Log = append(n.Log, Step{Kind: kind, GovMsg: bz})
}

// DecodeMsg decodes a step's Any-packed message.
func (n *Node) DecodeMsg(bz []byte) (sdk.Msg, error) {
	var any codectypes.Any
	if err := n.Enc.Marshaler.Unmarshal(bz, &any); err != nil {
		return nil, err
	}
	var msg sdk.Msg
	if err := n.App.InterfaceRegistry().UnpackAny(&any, &msg); err != nil {
		return nil, err
	}
	return msg, nil
}

const DefaultGas = 10_000_000

// Deliver signs and delivers msgs from key with no fee.
func (n *Node) Deliver(key Key, msgs ...sdk.Msg) (abci.ResponseDeliverTx, error) {
	return n.DeliverFee(key, nil, msgs...)
}

func (n *Node) DeliverFee(key Key, fee sdk.Coins, msgs ...sdk.Msg) (abci.ResponseDeliverTx, error) {
	bz, err := n.SignTx(key, fee, DefaultGas, msgs...)
	if err != nil {
		return abci.ResponseDeliverTx{}, err
	}
	return n.DeliverTxBytes(bz)
}

// DeliverGas is DeliverFee with an explicit gas limit.
func (n *Node) DeliverGas(key Key, fee sdk.Coins, gas uint64, msgs ...sdk.Msg) (abci.ResponseDeliverTx, error) {
	bz, err := n.SignTx(key, fee, gas, msgs...)
	if err != nil {
		return abci.ResponseDeliverTx{}, err
	}
	return n.DeliverTxBytes(bz)
}

// IsPanicResult tells whether baseapp converted a handler panic into a result.
func IsPanicResult(res abci.ResponseDeliverTx) bool {
	return res.Codespace == "undefined" && res.Code == 111222
}

// GovExec executes msg the way x/gov executes a passed proposal message:
// ValidateBasic, then the registered handler on a branched context written back
// only on success.
func (n *Node) GovExec(msg sdk.Msg) (res *sdk.Result, events []abci.Event, err error) {
	if _, eerr := n.EncodeMsg(msg); eerr != nil {
		// a proposal message that cannot be encoded can never reach a node
		return nil, nil, eerr
	}
	n.RecordMsg("gov", msg)
	defer func() {
		if r := recover(); r != nil {
			err = &PanicError{Where: "GovExec", Value: fmt.Sprint(r), Stack: string(debug.Stack())}
		}
		n.DigestNote("gov", err == nil, events)
	}()
	if err := msg.ValidateBasic(); err != nil {
		return nil, nil, err
	}
	handler := n.App.MsgServiceRouter().Handler(msg)
	if handler == nil {
		return nil, nil, fmt.Errorf("no handler for %s", sdk.MsgTypeURL(msg))
	}
	cacheCtx, write := n.Ctx().CacheContext()
	res, err = handler(cacheCtx, msg)
	if err != nil {
		return nil, nil, err
	}
	write()
	return res, res.Events, nil
}

// HandlerExec runs the registered message handler without the stateless checks (the way
// another module or a wrapping message would call it); effects are kept iff it succeeds.
func (n *Node) HandlerExec(msg sdk.Msg) (err error) {
	// not recorded for replay: a message with an empty or malformed authority cannot be
	// encoded into the recorded history (its signer cannot be derived)
	defer func() {
		if r := recover(); r != nil {
			err = &PanicError{Where: "HandlerExec", Value: fmt.Sprint(r), Stack: string(debug.Stack())}
		}
	}()
	handler := n.App.MsgServiceRouter().Handler(msg)
	if handler == nil {
		return fmt.Errorf("no handler for %s", sdk.MsgTypeURL(msg))
	}
	cacheCtx, write := n.Ctx().CacheContext()
	res, herr := handler(cacheCtx, msg)
	if herr != nil {
		return herr
	}
	_ = res
	write()
	return nil
}

// ExecOnBranch runs fn on a branched deliver-state context; writes back iff fn
// returns nil. Used for handlers that are not routable (cfesignature).
func (n *Node) ExecOnBranch(fn func(ctx sdk.Context) error) (err error) {
	defer func() {
		if r := recover(); r != nil {
			err = &PanicError{Where: "ExecOnBranch", Value: fmt.Sprint(r), Stack: string(debug.Stack())}
		}
	}()
	cacheCtx, write := n.Ctx().CacheContext()
	if err := fn(cacheCtx); err != nil {
		return err
	}
	write()
	return nil
}

// Export exports the app state like `export` would after the last commit.
func (n *Node) Export() (bz []byte, height int64, err error) {
	defer func() {
		if r := recover(); r != nil {
			err = &PanicError{Where: "Export", Value: fmt.Sprint(r), Stack: string(debug.Stack())}
		}
	}()
	exp, err := n.App.ExportAppStateAndValidators(false, nil)
	if err != nil {
		return nil, 0, err
	}
	return exp.AppState, exp.Height, nil
}

// Fund moves coins from the faucet (delegator-independent, supply-neutral plain
// transfer on the deliver context).
func (n *Node) Send(from, to sdk.AccAddress, coins sdk.Coins) error {
	return n.App.BankKeeper.SendCoins(n.Ctx(), from, to, coins)
}

// SubmitAndVote sends a real MsgSubmitProposal carrying msg (signed by the
// genesis delegator, who also holds all voting power) and votes yes. The
// proposal is executed by x/gov's EndBlocker once the 10 s voting period is over.
// Returns the proposal id (0 if the submission was rejected) and the result.
func (n *Node) SubmitAndVote(msg sdk.Msg) (uint64, abci.ResponseDeliverTx, error) {
	if _, eerr := n.EncodeMsg(msg); eerr != nil {
		return 0, abci.ResponseDeliverTx{}, eerr // no wire representation: cannot be proposed
	}
	sp, err := govv1.NewMsgSubmitProposal([]sdk.Msg{msg}, sdk.NewCoins(sdk.NewCoin("uc4e", sdk.NewInt(1))), n.Delegator.Bech(), "verif")
	if err != nil {
		return 0, abci.ResponseDeliverTx{}, err
	}
	res, err := n.Deliver(n.Delegator, sp)
	if err != nil || res.Code != 0 {
		return 0, res, err
	}
	var id uint64
	for _, ev := range Flatten(res.Events) {
		if ev.Type == "submit_proposal" {
			if v, ok := ev.Attrs["proposal_id"]; ok {
				fmt.Sscan(v, &id)
			}
		}
	}
	if id == 0 {
		return 0, res, fmt.Errorf("no proposal id in events")
	}
	vote := govv1.NewMsgVote(n.Delegator.Addr, id, govv1.OptionYes, "")
	vres, err := n.Deliver(n.Delegator, vote)
	if err != nil {
		return id, vres, err
	}
	if vres.Code != 0 {
		return id, vres, fmt.Errorf("vote rejected: %s", vres.Log)
	}
	return id, res, nil
}

// ProposalStatus returns the status of a proposal ("" if unknown).
func (n *Node) ProposalStatus(id uint64) string {
	p, ok := n.App.GovKeeper.GetProposal(n.Ctx(), id)
	if !ok {
		return ""
	}
	return p.Status.String()
}

// Restart emulates a node restart between two blocks: a new application object is
// created on the same database and loads the latest committed version; everything
// the old object kept in memory is gone.
func (n *Node) Restart() (err error) {
	if n.InBlock || n.db == nil {
		return fmt.Errorf("restart only between blocks of a node with its own database")
	}
	defer func() {
		if r := recover(); r != nil {
			err = &PanicError{Where: "Restart", Value: fmt.Sprint(r), Stack: string(debug.Stack())}
		}
	}()
	app, enc, _ := newAppDB(n.db)
	n.App, n.Enc = app, enc
	n.hasDeliver = false
	return nil
}

// CheckAndSimulate does what a node does for a transaction it hears about before the
// block arrives: CheckTx (mempool) and a gas simulation. Neither may influence results.
func (n *Node) CheckAndSimulate(bz []byte) {
	func() {
		defer func() { recover() }()
		n.App.CheckTx(abci.RequestCheckTx{Tx: bz, Type: abci.CheckTxType_New})
	}()
	func() {
		defer func() { recover() }()
		n.App.Simulate(bz)
	}()
}
