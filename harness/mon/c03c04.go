package mon

import (
	"math/big"
	"math/rand"
	"strings"

	"verifharness/chain"
	"verifharness/fw"
	"verifharness/gen"
	"verifharness/model"

	disttypes "github.com/chain4energy/c4e-chain/x/cfedistributor/types"
	sdk "github.com/cosmos/cosmos-sdk/types"
)

func init() {
	fw.Register(&fw.Monitor{
		ID:    "C03",
		Level: "exploration",
		Rule: "case = generated sub-distributor configuration accepted by Params.Validate() (1-6+ sub-distributors, 1-3 sources of MAIN/module/base/internal, 0-4 shares + burn share, chains of internal accounts, aliasing ids, a locked-coin source, a blocked destination) " +
			"x 8-30 blocks of multi-denomination inflows, with 0-3 governance updates (all four update messages) in between. The distributor's real BeginBlocker runs on the app's stores; after every block remains>=0, sum integer, sum==main balance, supply delta == -burn events, no foreign account touched; module invariants re-run. " +
			"Non-trivial: (>=2 sources in one sub-distributor or >=2 chained sub-distributors) and >=2 denominations and non-zero remains after some block. Distinct by configuration+inflow hash." +
			" An eighth of the scenarios start with a base account planted on the address of an unused collector module account: paying it is a refused transfer and the coins stay booked.",
		Assumptions:   []string{"module accounts owned by other modules' bookkeeping (staking pools, distribution, gov, transfer, cfevesting, cfeminter) are not used as sources/destinations"},
		Cases:         func(t string) int { return tierN(t, 960, 30000) },
		MinNontrivial: func(t string) int { return tierN(t, 180, 5000) },
		Run:           func(c *fw.Case) { runDistScenario(c, "C03") },
	})
	fw.Register(&fw.Monitor{
		ID:    "C04",
		Level: "exploration",
		Rule: "same executions as C03; oracle = exact big.Rat model of the documented flow keyed by (type,id), fed only the real pre-block balances; after every block per destination |gross receipts (bank transfer/burn events out of the main account) + recorded remains - model| <= 1 base unit; " +
			"plus metamorphic twin: the same configuration with every source list permuted must give identical receipts and states. Non-trivial: >=1 share/primary to MAIN or an internal account, >=1 burn share>0, >=3 destinations, cumulative inflow>1000. Distinct by configuration+inflow hash." +
			" Every 16th case runs C14's fault-injection scenario and keeps the share verdicts under injected transfer failures.",
		Assumptions:   []string{"the model (model/distributor.go) is the documented flow: MAIN inflow = main balance not owed to anybody, module/base sources swept whole plus their own re-queued remains, shares of inflow, primary gets the remainder, integer payouts at block end"},
		Cases:         func(t string) int { return tierN(t, 960, 30000) },
		MinNontrivial: func(t string) int { return tierN(t, 120, 4000) },
		Run: func(c *fw.Case) {
			if c.Index%16 == 5 {
				// shares under injected transfer failures (C14's configurations and schedules):
				// a failed sweep or payout must not credit anybody with coins that did not move
				runC14(c)
				c.MapViolationKeys(func(k string) string {
					if strings.HasPrefix(k, "C14/share-drift") {
						return "C04/share-drift-under-transfer-failures" + strings.TrimPrefix(k, "C14/share-drift")
					}
					return ""
				})
				c.Count("fault_injection_cases", 1)
				return
			}
			runDistScenario(c, "C04")
		},
	})
}

func cloneSubs(sds []disttypes.SubDistributor) []disttypes.SubDistributor {
	out := make([]disttypes.SubDistributor, len(sds))
	for i, sd := range sds {
		cp := sd
		cp.Sources = nil
		for _, s := range sd.Sources {
			sc := *s
			cp.Sources = append(cp.Sources, &sc)
		}
		cp.Destinations.Shares = nil
		for _, sh := range sd.Destinations.Shares {
			shc := *sh
			cp.Destinations.Shares = append(cp.Destinations.Shares, &shc)
		}
		out[i] = cp
	}
	return out
}

// randomUpdate applies one of the four distributor update messages through the
// governance path; returns a label.
func randomDistUpdate(c *fw.Case, e *distEnv, r *rand.Rand) string {
	params := e.n.App.CfedistributorKeeper.GetParams(e.n.Ctx())
	sds := params.SubDistributors
	var msg sdk.Msg
	label := ""
	switch r.Intn(4) {
	case 0:
		nsds := gen.SubDistributors(r, distOpts(e, true))
		if nsds == nil {
			return ""
		}
		msg = &disttypes.MsgUpdateParams{Authority: govAuthority(), SubDistributors: nsds}
		label = "update-params"
	case 1:
		i := r.Intn(len(sds))
		one := gen.SubDistributors(r, distOpts(e, true))
		if one == nil {
			return ""
		}
		repl := one[r.Intn(len(one))]
		repl.Name = sds[i].Name
		msg = &disttypes.MsgUpdateSubDistributorParam{Authority: govAuthority(), SubDistributor: &repl}
		label = "update-subdistributor"
	case 2:
		var names []string
		for _, sd := range sds {
			for _, sh := range sd.Destinations.Shares {
				names = append(names, sh.Name)
			}
		}
		if len(names) == 0 {
			return ""
		}
		budget := new(big.Int).Exp(big.NewInt(10), big.NewInt(18), nil)
		msg = &disttypes.MsgUpdateSubDistributorDestinationShareParam{Authority: govAuthority(), SubDistributorName: "", DestinationName: names[r.Intn(len(names))], Share: gen.Share(r, budget)}
		label = "update-share"
	default:
		i := r.Intn(len(sds))
		budget := new(big.Int).Exp(big.NewInt(10), big.NewInt(18), nil)
		msg = &disttypes.MsgUpdateSubDistributorBurnShareParam{Authority: govAuthority(), SubDistributorName: sds[i].Name, BurnShare: gen.Share(r, budget)}
		label = "update-burn"
	}
	_, _, err := e.n.GovExec(msg)
	if err != nil {
		if p := asPanic(err); p != nil {
			c.ViolateD("C20/gov-update-panic", p.Stack, "%s panicked: %s", label, short(p.Value, 200))
		}
		c.Count("updates_rejected", 1)
		return label + "(rejected)"
	}
	c.Count("updates_accepted", 1)
	e.reloadSubs()
	return label
}

func runDistScenario(c *fw.Case, prop string) {
	e := newDistKeys()
	do := distOpts(e, true)
	// every eighth scenario works in whole numbers only (see C14)
	do.NiceShares = c.Index%8 == 7
	e.wholeAmounts = do.NiceShares
	if prop == "C01" {
		// C01's distributor-only scenario: whole numbers of a few dozen base units, so that
		// burn shares land exactly on whole coins, and the burned total is compared exactly
		do.NiceShares, e.wholeAmounts, e.tinyWhole, e.exactBurn = true, true, true, true
	}
	sds := gen.SubDistributors(c.R, do)
	if sds == nil {
		c.Describe("no-valid-config")
		return
	}
	if c.Index%8 == 3 || (prop == "C01" && c.Index%16 == 15) {
		e.occupiedModule = []string{disttypes.GreenEnergyBoosterCollector, disttypes.GovernanceBoosterCollector}[c.R.Intn(2)]
	}
	if err := e.start(cloneSubs(sds), nil); err != nil {
		if p := asPanic(err); p != nil {
			c.ViolateD(prop+"/initchain-panic", p.Stack, "InitChain panicked for a valid configuration: %s", short(p.Value, 300))
			return
		}
		c.Inconclusive("start: %v", err)
		return
	}
	cfg := e.configString()
	nBlocks := 8 + c.R.Intn(23)
	seedInflow := c.R.Int63()
	c.Describe(cfg, nBlocks, seedInflow)

	// twin for the source-permutation metamorphic check (C04 only, no updates)
	var twin *distEnv
	doTwin := prop == "C04" && c.R.Intn(2) == 0
	nUpdates := 0
	if !doTwin {
		nUpdates = c.R.Intn(4)
	}
	if doTwin {
		perm := cloneSubs(sds)
		for i := range perm {
			src := perm[i].Sources
			c.R.Shuffle(len(src), func(a, b int) { src[a], src[b] = src[b], src[a] })
			// make sure at least multi-source lists are really permuted
			if len(src) >= 2 {
				src[0], src[len(src)-1] = src[len(src)-1], src[0]
			}
		}
		twin = newDistKeys()
		twin.wholeAmounts, twin.tinyWhole, twin.occupiedModule = e.wholeAmounts, e.tinyWhole, e.occupiedModule
		if err := twin.start(perm, nil); err != nil {
			c.Inconclusive("twin start: %v", err)
			return
		}
	}
	updateAt := map[int]bool{}
	for i := 0; i < nUpdates; i++ {
		updateAt[1+c.R.Intn(nBlocks)] = true
	}
	multiSource, chained, toMainOrInternal, burnPos := false, false, false, false
	destSet := map[string]bool{}
	scan := func() {
		destOf := map[string]bool{}
		for _, sd := range e.subs {
			if len(sd.Sources) >= 2 {
				multiSource = true
			}
			for _, s := range sd.Sources {
				if destOf[s.Key()] {
					chained = true
				}
			}
			for _, sh := range sd.Shares {
				destOf[sh.Dest.Key()] = true
				destSet[sh.Dest.Key()] = true
				if (sh.Dest.Type == model.KMain || sh.Dest.Type == model.KInternal) && sh.Share.Sign() > 0 {
					toMainOrInternal = true
				}
			}
			destOf[sd.Primary.Key()] = true
			destSet[sd.Primary.Key()] = true
			if sd.Primary.Type == model.KMain || sd.Primary.Type == model.KInternal {
				toMainOrInternal = true
			}
			if sd.Burn.Sign() > 0 {
				burnPos = true
				destSet[model.BurnKey] = true
			}
		}
	}
	scan()
	denomsSeen := map[string]bool{}
	remainsNonZero := false
	cumInflow := new(big.Rat)
	rIn := rand.New(rand.NewSource(seedInflow))
	var rTwin *rand.Rand
	if twin != nil {
		rTwin = rand.New(rand.NewSource(seedInflow))
	}
	var labels []string
	for b := 1; b <= nBlocks; b++ {
		if updateAt[b] {
			if l := randomDistUpdate(c, e, c.R); l != "" {
				labels = append(labels, l)
				scan()
			}
			if c.NViol() > 0 {
				return
			}
		}
		e.inflow(rIn)
		if twin != nil {
			twin.inflow(rTwin)
		}
		supplyBefore := e.n.Snap()
		obs := e.step(e.keeper, nil, nil)
		if obs.panicked != nil {
			c.ViolateD(prop+"/beginblock-panic", map[string]interface{}{"config": e.describe(), "stack": obs.panicked.Stack}, "distributor BeginBlocker panicked in block %d: %s", e.block, short(obs.panicked.Value, 300))
			return
		}
		c.Count("blocks", 1)
		for _, m := range e.model.Inflow {
			for d, v := range m {
				if v.Sign() > 0 {
					denomsSeen[d] = true
					cumInflow.Add(cumInflow, v)
				}
			}
		}
		for _, s := range obs.states {
			if !s.Remains.IsZero() {
				remainsNonZero = true
			}
		}
		switch prop {
		case "C03":
			e.checkBooks(c, obs, "C03")
			if c.NViol() > 0 {
				return
			}
			// conservation: supply moves only by burns; only configured accounts change
			after := e.n.Snap()
			for _, d := range after.Denoms() {
				want := new(big.Int).Set(supplyBefore.Sup(d))
				if bv := obs.burned[d]; bv != nil {
					want.Sub(want, model.Floor(bv))
				}
				if after.Sup(d).Cmp(want) != 0 {
					c.ViolateD("C03/supply-vs-burn", e.describe(), "block %d: supply of %s moved from %s to %s but burn events say %v", e.block, d, supplyBefore.Sup(d), after.Sup(d), obs.burned[d])
					return
				}
				if after.SumBalances(d).Cmp(after.Sup(d)) != 0 {
					c.ViolateD("C03/supply-vs-balances", e.describe(), "block %d: supply of %s is %s but balances sum to %s", e.block, d, after.Sup(d), after.SumBalances(d))
					return
				}
			}
			allowed := map[string]bool{e.mainAddr: true}
			for _, sd := range e.subs {
				for _, s := range sd.Sources {
					allowed[e.addrOf(s)] = true
				}
				for _, sh := range sd.Shares {
					allowed[e.addrOf(sh.Dest)] = true
				}
				allowed[e.addrOf(sd.Primary)] = true
			}
			for _, s := range obs.states {
				if s.Account != nil {
					allowed[e.addrOf(toDAcc(*s.Account))] = true
				}
			}
			for addr := range chain.BalanceDeltas(supplyBefore, after) {
				if !allowed[addr] {
					c.ViolateD("C03/foreign-account-touched", e.describe(), "block %d: balance of %s changed but it is neither source nor destination", e.block, addr)
					return
				}
			}
		case "C04":
			e.checkModel(c, obs, "C04")
			if c.NViol() > 0 {
				return
			}
		case "C01":
			e.checkModel(c, obs, "C01")
			if c.NViol() > 0 {
				return
			}
		case "C18":
			e.checkEvents(c, obs, "C18")
			if c.NViol() > 0 {
				return
			}
		}
		if twin != nil {
			tobs := twin.step(twin.keeper, nil, nil)
			if tobs.panicked != nil {
				c.ViolateD(prop+"/beginblock-panic", map[string]interface{}{"config": twin.describe(), "stack": tobs.panicked.Stack}, "distributor BeginBlocker panicked (permuted sources) in block %d: %s", twin.block, short(tobs.panicked.Value, 300))
				return
			}
			if diff := compareDistRuns(e, twin, obs, tobs); diff != "" {
				c.ViolateD("C04/source-order-dependence", map[string]interface{}{"original": e.describe(), "permuted": twin.describe()}, "block %d: permuting source lists changed the outcome: %s", e.block, diff)
				return
			}
			c.Count("twin_blocks_compared", 1)
		}
	}
	switch prop {
	case "C03":
		c.Nontrivial((multiSource || chained) && len(denomsSeen) >= 2 && remainsNonZero)
	case "C04":
		c.Nontrivial(toMainOrInternal && burnPos && len(destSet) >= 3 && cumInflow.Cmp(big.NewRat(1000, 1)) > 0)
	case "C18":
		c.Nontrivial(c.Counter("distribution_events") >= 3 && len(denomsSeen) >= 1)
	}
	c.Sample(map[string]interface{}{"config": strings.Split(cfg, " ;; "), "blocks": nBlocks, "updates": labels, "source_permutation_twin": twin != nil, "denoms": len(denomsSeen)})
}

// compareDistRuns compares receipts and states of two runs exactly.
func compareDistRuns(a, b *distEnv, oa, ob distBlockObs) string {
	keys := map[string]bool{}
	for k := range a.receipts {
		keys[k] = true
	}
	for k := range b.receipts {
		keys[k] = true
	}
	for k := range keys {
		ca, cb := a.receipts[k], b.receipts[k]
		if ca == nil {
			ca = model.Coins{}
		}
		if cb == nil {
			cb = model.Coins{}
		}
		if !coinsClose(ca, cb, new(big.Rat)) {
			return "cumulative receipts of " + k + ": " + coinsStr(ca) + " vs " + coinsStr(cb)
		}
	}
	ra, rb := map[string]model.Coins{}, map[string]model.Coins{}
	for _, s := range oa.states {
		ra[stateKey(s)] = decCoinsToModel(s.Remains)
	}
	for _, s := range ob.states {
		rb[stateKey(s)] = decCoinsToModel(s.Remains)
	}
	for k := range ra {
		keys[k] = true
	}
	for k := range rb {
		keys[k] = true
	}
	for k := range keys {
		ca, cb := ra[k], rb[k]
		if ca == nil {
			ca = model.Coins{}
		}
		if cb == nil {
			cb = model.Coins{}
		}
		if !coinsClose(ca, cb, new(big.Rat)) {
			return "remains of " + k + ": " + coinsStr(ca) + " vs " + coinsStr(cb)
		}
	}
	return ""
}
