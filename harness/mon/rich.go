package mon

import (
	"fmt"
	"math/big"
	"time"

	"verifharness/chain"
	"verifharness/fw"
	"verifharness/gen"
	"verifharness/model"

	disttypes "github.com/chain4energy/c4e-chain/x/cfedistributor/types"
	sigtypes "github.com/chain4energy/c4e-chain/x/cfesignature/types"
	sdk "github.com/cosmos/cosmos-sdk/types"
	authtypes "github.com/cosmos/cosmos-sdk/x/auth/types"
	vestingtypes "github.com/cosmos/cosmos-sdk/x/auth/vesting/types"
	"github.com/cosmos/cosmos-sdk/x/authz"
	banktypes "github.com/cosmos/cosmos-sdk/x/bank/types"
	"github.com/cosmos/cosmos-sdk/x/feegrant"
	govv1 "github.com/cosmos/cosmos-sdk/x/gov/types/v1"
	govv1beta1 "github.com/cosmos/cosmos-sdk/x/gov/types/v1beta1"
	paramproposal "github.com/cosmos/cosmos-sdk/x/params/types/proposal"
	abci "github.com/tendermint/tendermint/abci/types"
)

// rich is a full-application history: generated emission and sub-distributor
// configuration, vesting traffic, governance updates, signature data, fees.
// Followers are other replicas that receive exactly the same inputs.
type rich struct {
	e         *vestEnv
	mc        gen.MinterConfig
	dk        *distEnv
	followers []*chain.Node
	now       time.Time
	times     []time.Time
	ti        int
	maxT      time.Time
	// observations of the last step on the primary and on each follower
	lastBegin       []abci.ResponseBeginBlock
	lastBeginErr    []error
	lastTx          []abci.ResponseDeliverTx
	updatesOK       int
	updatesReject   int
	burnBlocks      int
	sigCount        int
	txCount         int
	txFailed        int
	proposals       int
	legacyProposals int
	grants          int
}

func newRich(c *fw.Case, record bool) (*rich, error) {
	mc := gen.Minters(c.R, gen.MintDenom(c.R), 28)
	dk := newDistKeys()
	// base-account sources / destinations of the distributor are plain keys of the harness
	do := distOpts(dk, true)
	do.NiceShares = c.Index%8 == 7 // whole-number books (with fees that are multiples of 20)
	sds := gen.SubDistributors(c.R, do)
	if sds == nil {
		return nil, fmt.Errorf("no valid sub-distributor configuration")
	}
	// the distributor's "locked source": a continuous vesting account whose coins stay locked
	// (a base-account source of that kind has a balance, but nothing spendable to sweep)
	lockedCoins := sdk.NewCoins(sdk.NewCoin("uc4e", sdk.NewInt(777)))
	bva := vestingtypes.NewBaseVestingAccount(authtypes.NewBaseAccount(dk.vesting.Addr, nil, 0, 0), lockedCoins, gen.Epoch.Add(200*365*24*time.Hour).Unix())
	extra := []chain.GenAccount{{Account: vestingtypes.NewContinuousVestingAccountRaw(bva, gen.Epoch.Add(100*365*24*time.Hour).Unix()), Coins: lockedCoins}}
	e, err := newVestEnvOpts(c.R, vestOpts{Minter: minterGenesis(mc.Params, gen.Epoch), Distributor: &disttypes.GenesisState{Params: disttypes.Params{SubDistributors: cloneSubs(sds)}}, Record: record, Extra: extra})
	if err != nil {
		return nil, err
	}
	e.niceFees = do.NiceShares
	r := &rich{e: e, mc: mc, dk: dk}
	horizon := mc.Horizon(c.R)
	r.times = gen.Partition(c.R, gen.Epoch, horizon, mc.Schedule.Boundaries(horizon, 30), c.R.Intn(2), 400)
	r.now = gen.Epoch
	// an unbounded final exponential period is iterated step by step in every BeginBlock:
	// block times stay within 20000 steps of its start (with 1 s steps the history then
	// proceeds in sub-second blocks instead of jumping a year ahead)
	if lp := mc.Schedule.Periods[len(mc.Schedule.Periods)-1]; lp.Kind == model.ExponentialStep {
		ls := mc.Schedule.Start
		for _, p := range mc.Schedule.Periods {
			if p.End != nil {
				ls = *p.End
			}
		}
		if ls.Before(gen.Epoch) {
			ls = gen.Epoch
		}
		if lp.Step < 40*365*24*time.Hour/20000 {
			r.maxT = ls.Add(20000 * lp.Step)
		}
	}
	return r, nil
}

func (r *rich) nodes() []*chain.Node {
	return append([]*chain.Node{r.e.n}, r.followers...)
}

// nextTime mixes schedule boundaries with vesting boundaries.
func (r *rich) nextTime(c *fw.Case) time.Time {
	t := r.nextTimeUnbounded(c)
	if !r.maxT.IsZero() && t.After(r.maxT) {
		t = r.now.Add(time.Duration(1+c.R.Intn(1000)) * time.Millisecond)
	}
	return t
}

func (r *rich) nextTimeUnbounded(c *fw.Case) time.Time {
	if c.R.Intn(2) == 0 {
		for r.ti < len(r.times) && !r.times[r.ti].After(r.now) {
			r.ti++
		}
		if r.ti < len(r.times) {
			t := r.times[r.ti]
			r.ti++
			if t.Sub(r.now) < 400*24*time.Hour || c.R.Intn(4) == 0 {
				return t
			}
		}
	}
	return r.e.nextBlockTime(c.R, r.now)
}

// begin opens the next block on every replica.
func (r *rich) begin(t time.Time) {
	r.now = t
	r.lastBegin = r.lastBegin[:0]
	r.lastBeginErr = r.lastBeginErr[:0]
	for _, n := range r.nodes() {
		res, err := n.BeginBlock(t)
		r.lastBegin = append(r.lastBegin, res)
		r.lastBeginErr = append(r.lastBeginErr, err)
	}
	if r.lastBeginErr[0] == nil {
		if led, err := chain.Ledger(r.lastBegin[0].Events); err == nil && len(led.Burned) > 0 {
			r.burnBlocks++
		}
	}
}

func (r *rich) end() []error {
	var errs []error
	for _, n := range r.nodes() {
		_, _, err := n.EndBlock()
		errs = append(errs, err)
	}
	return errs
}

// deliver signs on the primary and delivers the same bytes everywhere.
func (r *rich) deliver(key chain.Key, fee sdk.Coins, msg sdk.Msg) bool {
	bz, err := r.e.n.SignTx(key, fee, chain.DefaultGas, msg)
	if err != nil {
		return false
	}
	r.lastTx = r.lastTx[:0]
	for _, n := range r.nodes() {
		res, _ := n.DeliverTxBytes(bz)
		r.lastTx = append(r.lastTx, res)
	}
	r.txCount++
	if r.lastTx[0].Code != 0 {
		r.txFailed++
	}
	return true
}

// traffic produces the transactions / governance executions of one block.
func (r *rich) traffic(c *fw.Case, intensity int) {
	e := r.e
	nOps := c.R.Intn(intensity + 1)
	for i := 0; i < nOps; i++ {
		op := e.genOp(c.R, r.now)
		if !r.deliver(op.signer, op.fee, op.msg) {
			continue
		}
		if r.lastTx[0].Code == 0 {
			switch op.kind {
			case "send", "create-account", "split", "move", "move-denoms":
				if k, ok := e.keys[op.to]; ok {
					e.cvaKeys = append(e.cvaKeys, k)
				}
			}
		}
	}
	// inflow for base-account sources of the distributor (plain bank sends)
	if c.R.Intn(2) == 0 {
		params := e.n.App.CfedistributorKeeper.GetParams(e.n.Ctx())
		for _, sd := range params.SubDistributors {
			for _, s := range sd.Sources {
				if s.Type == disttypes.BaseAccount && c.R.Intn(2) == 0 {
					amt := sdk.NewCoins(sdk.NewCoin(vDenom, sdk.NewIntFromBigInt(new(big.Int).Add(gen.BigAmount(c.R, 15), big.NewInt(1)))))
					if c.R.Intn(2) == 0 {
						amt = amt.Add(sdk.NewCoin("foo", sdk.NewInt(int64(1+c.R.Intn(1_000_000)))))
					}
					o := e.owners[c.R.Intn(len(e.owners))]
					r.deliver(o, sdk.NewCoins(sdk.NewCoin(vDenom, sdk.NewInt(int64(1+c.R.Intn(3000))))), &banktypes.MsgSend{FromAddress: o.Bech(), ToAddress: s.Id, Amount: amt})
				}
			}
		}
	}
	if c.R.Intn(6) == 0 {
		auth := govAuthority()
		if c.R.Intn(8) == 0 {
			auth = e.strangers[0].Bech()
		}
		msg, _ := c13Message(c, e.n, r.dk, r.mc, auth, r.now)
		if msg != nil {
			okAll := true
			for i, n := range r.nodes() {
				_, _, err := n.GovExec(msg)
				if i == 0 {
					okAll = err == nil
				}
			}
			if okAll {
				r.updatesOK++
			} else {
				r.updatesReject++
			}
		}
	}
	// a real governance proposal now and then: submitted and voted by signed transactions,
	// executed by x/gov's EndBlocker in whichever later block the 10 s voting period has passed
	if c.R.Intn(10) == 0 {
		if msg, _ := c13Message(c, e.n, r.dk, r.mc, govAuthority(), r.now); msg != nil {
			if _, eerr := e.n.EncodeMsg(msg); eerr == nil {
				if sp, err := govv1.NewMsgSubmitProposal([]sdk.Msg{msg}, sdk.NewCoins(sdk.NewCoin("uc4e", sdk.NewInt(1))), e.n.Delegator.Bech(), "verif"); err == nil {
					if r.deliver(e.n.Delegator, nil, sp) && r.lastTx[0].Code == 0 {
						var id uint64
						for _, ev := range chain.Flatten(r.lastTx[0].Events) {
							if ev.Type == "submit_proposal" {
								if v, ok := ev.Attrs["proposal_id"]; ok {
									fmt.Sscan(v, &id)
								}
							}
						}
						if id > 0 {
							r.deliver(e.n.Delegator, nil, govv1.NewMsgVote(e.n.Delegator.Addr, id, govv1.OptionYes, ""))
							r.proposals++
						}
					}
				}
			}
		}
	}
	// anybody may grant a fee allowance or an authorization to any address; x/feegrant and
	// x/authz create the grantee's account when it does not exist - also at the address of a
	// module account that nothing has used yet. Whatever the distributor is configured to pay
	// later, its BeginBlocker must cope with what is there
	if c.R.Intn(12) == 0 {
		// (module accounts of the custom modules. Left alone: the SDK's fee collector and the
		// validators' rewards collector, which this application wires into x/distribution as
		// its fee collector - x/distribution asks for that account in every block from height 2
		// on, so it exists on any chain before a transaction could get there, and a panic of
		// x/distribution in the harness' first block would not be one of the minter or the
		// distributor)
		names := []string{"cfeminter", "cfevesting", "gov", disttypes.DistributorMainAccount, disttypes.GreenEnergyBoosterCollector, disttypes.GovernanceBoosterCollector}
		grantee := authtypes.NewModuleAddress(names[c.R.Intn(len(names))])
		if c.R.Intn(4) == 0 {
			grantee = chain.NewKey(fmt.Sprintf("grantee-%d", c.R.Intn(1000))).Addr
		}
		granter := e.owners[c.R.Intn(len(e.owners))]
		var msg sdk.Msg
		if c.R.Intn(2) == 0 {
			msg, _ = feegrant.NewMsgGrantAllowance(&feegrant.BasicAllowance{}, granter.Addr, grantee)
		} else {
			exp := r.now.Add(1000 * time.Hour)
			msg, _ = authz.NewMsgGrant(granter.Addr, grantee, authz.NewGenericAuthorization("/cosmos.bank.v1beta1.MsgSend"), &exp)
		}
		if msg != nil {
			r.deliver(granter, nil, msg)
			r.grants++
		}
	}
	// ... and a legacy parameter-change proposal (gov v1beta1): x/gov runs its content once at
	// submission on a branched context, against the x/params subspaces of the node. Those of
	// the custom modules have had no key table since v1.2.0, so such a proposal is refused -
	// by every node alike, whatever it went through since InitChain
	if c.R.Intn(12) == 0 {
		targets := [][3]string{{"cfevesting", "Denom", `"uc4e"`}, {"cfeminter", "MintDenom", `"uc4e"`}, {"cfedistributor", "SubDistributors", `[]`},
			{"staking", "MaxValidators", `"101"`}, {"cfevesting", "Unknown", `"1"`}, {"nosuchspace", "Key", `"1"`}}
		tg := targets[c.R.Intn(len(targets))]
		content := paramproposal.NewParameterChangeProposal("verif", "legacy parameter change", []paramproposal.ParamChange{paramproposal.NewParamChange(tg[0], tg[1], tg[2])})
		if sp, err := govv1beta1.NewMsgSubmitProposal(content, sdk.NewCoins(sdk.NewCoin("uc4e", sdk.NewInt(1))), e.n.Delegator.Addr); err == nil {
			r.deliver(e.n.Delegator, nil, sp)
			r.legacyProposals++
		}
	}
	if c.R.Intn(5) == 0 {
		var msg sdk.Msg
		switch c.R.Intn(3) {
		case 0:
			msg = &sigtypes.MsgPublishReferencePayloadLink{Creator: e.owners[0].Bech(), Key: fmt.Sprintf("key-%d", c.R.Intn(6)), Value: fmt.Sprintf("value-%d", c.R.Intn(1000))}
		case 1:
			js := fmt.Sprintf(`{"signature":"c2ln%d","algorithm":"ecdsaWithSha256","certificate":"cert"}`, c.R.Intn(10))
			if c.R.Intn(3) == 0 {
				// a document that spells its field names in other ways, several times over
				js = fmt.Sprintf(`{"Signature":"c2lnQQ%d","SIGNATURE":"c2lnQg%d","signaturE":"c2lnQw%d","Algorithm":"ecdsaWithSha256","ALGORITHM":"sha256WithRsaEncryption","Certificate":"cert-a","CERTIFICATE":"cert-b","certificatE":"cert-c"}`, c.R.Intn(10), c.R.Intn(10), c.R.Intn(10))
			}
			msg = &sigtypes.MsgStoreSignature{Creator: e.owners[0].Bech(), StorageKey: fmt.Sprintf("sk-%d", c.R.Intn(6)), SignatureJSON: js}
		default:
			bz, _ := e.n.Enc.Marshaler.MarshalInterfaceJSON(chain.NewKey(fmt.Sprintf("sig-new-%d", c.R.Intn(1000))).Priv.PubKey())
			msg = &sigtypes.MsgCreateAccount{Creator: e.owners[0].Bech(), AccAddressString: chain.NewKey(fmt.Sprintf("sig-new-%d", c.R.Intn(1000))).Bech(), PubKeyString: string(bz)}
		}
		for _, n := range r.nodes() {
			execSigOn(n, msg)
		}
		r.sigCount++
	}
}

// c15QuickSigMsg builds a random signature-module message.
func c15QuickSigMsg(c *fw.Case, e *vestEnv) sdk.Msg {
	switch c.R.Intn(3) {
	case 0:
		return &sigtypes.MsgPublishReferencePayloadLink{Creator: e.owners[0].Bech(), Key: fmt.Sprintf("key-%d", c.R.Intn(6)), Value: fmt.Sprintf("value-%d", c.R.Intn(1000))}
	case 1:
		return &sigtypes.MsgStoreSignature{Creator: e.owners[0].Bech(), StorageKey: fmt.Sprintf("sk-%d", c.R.Intn(6)), SignatureJSON: fmt.Sprintf(`{"signature":"c2ln%d","algorithm":"ecdsaWithSha256","certificate":"cert"}`, c.R.Intn(10))}
	}
	k := chain.NewKey(fmt.Sprintf("sig-new-%d", c.R.Intn(1000)))
	bz, _ := e.n.Enc.Marshaler.MarshalInterfaceJSON(k.Priv.PubKey())
	return &sigtypes.MsgCreateAccount{Creator: e.owners[0].Bech(), AccAddressString: k.Bech(), PubKeyString: string(bz)}
}
