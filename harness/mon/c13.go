package mon

import (
	"encoding/hex"
	"fmt"
	"math/big"
	"os"
	"runtime/debug"
	"sort"
	"time"

	"verifharness/chain"
	"verifharness/fw"
	"verifharness/gen"

	distkeeper "github.com/chain4energy/c4e-chain/x/cfedistributor/keeper"
	disttypes "github.com/chain4energy/c4e-chain/x/cfedistributor/types"
	minterkeeper "github.com/chain4energy/c4e-chain/x/cfeminter/keeper"
	minttypes "github.com/chain4energy/c4e-chain/x/cfeminter/types"
	vestkeeper "github.com/chain4energy/c4e-chain/x/cfevesting/keeper"
	vesttypes "github.com/chain4energy/c4e-chain/x/cfevesting/types"
	codectypes "github.com/cosmos/cosmos-sdk/codec/types"
	sdk "github.com/cosmos/cosmos-sdk/types"
	authtypes "github.com/cosmos/cosmos-sdk/x/auth/types"
)

func init() {
	fw.Register(&fw.Monitor{
		ID: "C13", Level: "exploration",
		Rule: "case = one chain (generated emission + sub-distributor configuration, with or without vesting pools) and a sequence of 8-40 parameter-update messages of all seven types (2 minter, 4 distributor, 1 vesting) interleaved with blocks so that the minter state advances. " +
			"Payloads: valid, invalid, and valid-in-isolation-but-invalid-in-combination (drop the minter's current period, raise one share so the sum reaches 1, remove the MAIN-source sub-distributor, duplicate names, vesting denom change while pools exist). Authorities: governance, another account, empty, malformed. " +
			"Routes: the governance execution path (ValidateBasic + registered handler on a branched context), real MsgSubmitProposal/MsgVote executed by x/gov, real signed DeliverTx from non-authority signers (authority = the signer; authority = gov but signed by somebody else), and for foreign / empty / malformed authorities also the routed handler and the module's MsgServer called directly. " +
			"Oracle after every message: a non-governance message changes nothing (full snapshot); a rejected message leaves the raw params bytes of all three modules untouched; the stored params decode and pass the module's own Validate(); minter params contain the current MinterState.SequenceId; the vesting denom never changes while pools exist. " +
			"Non-trivial: >=1 accepted and >=1 rejected governance update and >=1 non-governance attempt that reached DeliverTx. Distinct by sequence hash." +
			" One governance update in eight goes to the module's message server on the block's own context (no branch to discard): a refused update must not have written anything.",
		Cases:         func(t string) int { return tierN(t, 384, 8000) },
		MinNontrivial: func(t string) int { return tierN(t, 160, 3000) },
		Run:           runC13,
	})
}

func paramsBytes(n *chain.Node) map[string]string {
	out := map[string]string{}
	ctx := n.Ctx()
	for _, m := range []string{"cfeminter", "cfedistributor", "cfevesting"} {
		out[m] = hex.EncodeToString(ctx.KVStore(n.App.GetKey(m)).Get([]byte{0x00}))
	}
	return out
}

func runC13(c *fw.Case) {
	mc := gen.Minters(c.R, gen.MintDenom(c.R), 30)
	attacker := chain.NewKey("attacker")
	other := chain.NewKey("other-signer")
	dk := newDistKeys()
	sds := gen.SubDistributors(c.R, distOpts(dk, true))
	if sds == nil {
		c.Describe("no-config")
		return
	}
	withPools := c.R.Intn(2) == 0
	vg := vesttypes.DefaultGenesis()
	owner := chain.NewKey("c13-owner")
	if withPools {
		vg.VestingTypes = []vesttypes.GenesisVestingType{{Name: "t", LockupPeriod: 1, LockupPeriodUnit: "day", VestingPeriod: 1, VestingPeriodUnit: "day", Free: sdk.ZeroDec()}}
		vg.AccountVestingPools = []*vesttypes.AccountVestingPools{{Owner: owner.Bech(), VestingPools: []*vesttypes.VestingPool{{Name: "p", VestingType: "t", LockStart: gen.Epoch, LockEnd: gen.Epoch.Add(time.Hour),
			InitiallyLocked: sdk.NewInt(1000), Withdrawn: sdk.ZeroInt(), Sent: sdk.ZeroInt()}}}}
	}
	rich := sdk.NewCoins(bigCoins("uc4e", 15))
	n, err := chain.NewNode(chain.GenesisSpec{Time: gen.Epoch, Minter: minterGenesis(mc.Params, gen.Epoch), Distributor: &disttypes.GenesisState{Params: disttypes.Params{SubDistributors: cloneSubs(sds)}}, Vesting: vg,
		Accounts: []chain.GenAccount{{Account: authtypes.NewBaseAccount(attacker.Addr, nil, 0, 0), Coins: rich}, {Account: authtypes.NewBaseAccount(other.Addr, nil, 0, 0), Coins: rich},
			{Account: authtypes.NewBaseAccount(owner.Addr, nil, 0, 0), Coins: rich}}})
	if err != nil {
		if p := asPanic(err); p != nil {
			c.ViolateD("C10/initchain-panic", p.Stack, "InitChain panicked: %s", short(p.Value, 200))
			c.KeepViolations("C13/")
			return
		}
		c.Inconclusive("node: %v", err)
		return
	}
	horizon := mc.Horizon(c.R)
	nMsgs := 8 + c.R.Intn(33)
	times := gen.Partition(c.R, gen.Epoch, horizon, mc.Schedule.Boundaries(horizon, 20), 0, nMsgs/2+2)
	ti := 0
	now := times[0]
	if _, err := n.BeginBlock(now); err != nil {
		c13Block(c, err)
		return
	}
	ti++
	accepted, rejected, nonGov := 0, 0, 0
	drained := false
	var labels []string
	for i := 0; i < nMsgs; i++ {
		if c.R.Intn(3) == 0 && ti < len(times) {
			if _, _, err := n.EndBlock(); err != nil {
				c13Block(c, err)
				break
			}
			now = times[ti]
			ti++
			if _, err := n.BeginBlock(now); err != nil {
				c13Block(c, err)
				break
			}
		}
		// once the lock has ended the owner may drain the pool: the pool record stays, the denom
		// must stay as well
		if withPools && !drained && now.After(gen.Epoch.Add(time.Hour)) && c.R.Intn(3) == 0 {
			if res, err := n.Deliver(owner, &vesttypes.MsgWithdrawAllAvailable{Owner: owner.Bech()}); err == nil && res.Code == 0 {
				drained = true
				c.Count("pools_drained_before_denom_updates", 1)
			}
		}
		authKind := c.R.Intn(10)
		authority := govAuthority()
		switch authKind {
		case 0:
			authority = attacker.Bech()
		case 1:
			authority = ""
		case 2:
			authority = "c4e1malformed"
		}
		msg, label := c13Message(c, n, dk, mc, authority, now)
		if msg == nil {
			continue
		}
		labels = append(labels, label)
		if os.Getenv("VERIF_TRACE") != "" {
			fmt.Fprintln(os.Stderr, "C13", i, label, fmtTime(now), mc.Describe())
		}
		preBytes := paramsBytes(n)
		preSnap := n.Snap()
		vestDenomBefore := n.App.CfevestingKeeper.GetParams(n.Ctx()).Denom
		poolsExist := len(n.App.CfevestingKeeper.GetAllAccountVestingPools(n.Ctx())) > 0
		isGov := authority == govAuthority()
		ok := false
		switch {
		case isGov && c.R.Intn(8) == 0:
			// authority says gov, but the transaction is signed by somebody else
			bz, serr := n.SignTx(other, nil, chain.DefaultGas, msg)
			if serr != nil {
				continue
			}
			res, derr := n.DeliverTxBytes(bz)
			if derr != nil {
				continue
			}
			nonGov++
			if res.Code == 0 {
				c.ViolateD("C13/non-authority-accepted", map[string]string{"msg": label, "route": "gov authority, foreign signature"}, "%s with authority=gov signed by another account was accepted", label)
			}
			c13Unchanged(c, n, preSnap, other.Bech(), label)
		case !isGov && authority == attacker.Bech():
			res, derr := n.Deliver(attacker, msg)
			if derr != nil {
				continue
			}
			nonGov++
			if res.Code == 0 {
				c.ViolateD("C13/non-authority-accepted", map[string]string{"msg": label, "route": "authority = signer"}, "%s from a non-governance account was accepted", label)
			}
			c13Unchanged(c, n, preSnap, attacker.Bech(), label)
		case isGov && c.R.Intn(4) == 0:
			// the real thing: MsgSubmitProposal + MsgVote, executed by x/gov's EndBlocker
			id, _, perr := n.SubmitAndVote(msg)
			if p := asPanic(perr); p != nil {
				c.ViolateD("C20/gov-update-panic", p.Stack, "%s panicked in the proposal route: %s", label, short(p.Value, 200))
				continue
			}
			if id == 0 {
				rejected++
				c.Count("proposals_rejected_at_submission", 1)
			} else {
				stepErr := func() error {
					if _, _, err := n.EndBlock(); err != nil {
						return err
					}
					now = now.Add(11 * time.Second)
					for ti < len(times) && !times[ti].After(now) {
						ti++
					}
					if _, err := n.BeginBlock(now); err != nil {
						return err
					}
					if _, _, err := n.EndBlock(); err != nil { // x/gov tallies and executes here
						return err
					}
					now = now.Add(time.Second)
					_, err := n.BeginBlock(now)
					return err
				}()
				if stepErr != nil {
					c13Block(c, stepErr)
					break
				}
				st := n.ProposalStatus(id)
				ok = st == "PROPOSAL_STATUS_PASSED"
				c.Count("proposals_executed_by_gov_endblocker", 1)
				if ok {
					accepted++
				} else {
					rejected++
				}
			}
		case !isGov && c.R.Intn(2) == 0:
			// the message server itself, without the stateless checks in front of it (how a
			// wrapping message or another module would call it): the authority check belongs
			// to the server, an empty or malformed authority is "another signer" too
			herr := n.HandlerExec(msg)
			if c.R.Intn(2) == 0 {
				// ... and the module's message server as another module of the application would
				// call it (the router in front of it runs the stateless checks once more)
				herr = c13DirectServer(n, msg)
			}
			if p := asPanic(herr); p != nil {
				c.ViolateD("C20/gov-update-panic", p.Stack, "%s panicked in the message server: %s", label, short(p.Value, 200))
				continue
			}
			nonGov++
			c.Count("message_server_calls_with_foreign_authority", 1)
			if herr == nil {
				c.ViolateD("C13/non-authority-accepted", map[string]string{"msg": label, "authority": authority, "route": "message server"}, "%s with authority %q was accepted by the message server", label, authority)
			}
			rejected++
		case isGov && c.R.Intn(8) == 0 && n.InBlock:
			// the message server called by code that does not branch the state for it (another
			// module's handler, a migration): a refused update must not have written anything
			// by the time it is refused - nobody would discard it
			c13Unbranched = true
			gerr := c13DirectServer(n, msg)
			c13Unbranched = false
			if p := asPanic(gerr); p != nil {
				c.ViolateD("C20/gov-update-panic", p.Stack, "%s panicked in the message server: %s", label, short(p.Value, 200))
				continue
			}
			c.Count("message_server_calls_without_state_branch", 1)
			ok = gerr == nil
			if ok {
				accepted++
			} else {
				rejected++
			}
		default:
			_, _, gerr := n.GovExec(msg)
			if p := asPanic(gerr); p != nil {
				c.ViolateD("C20/gov-update-panic", p.Stack, "%s panicked: %s", label, short(p.Value, 200))
				continue
			}
			ok = gerr == nil
			if !isGov && ok {
				c.ViolateD("C13/non-authority-accepted", map[string]string{"msg": label, "authority": authority}, "%s with authority %q was accepted on the governance path", label, authority)
			}
			if ok {
				accepted++
			} else {
				rejected++
			}
		}
		postBytes := paramsBytes(n)
		if !ok {
			for m, b := range preBytes {
				if postBytes[m] != b {
					c.ViolateD("C13/rejected-update-changed-params", map[string]string{"msg": label, "module": m}, "rejected %s changed the stored parameters of %s", label, m)
				}
			}
		}
		// stored parameters stay valid
		ctx := n.Ctx()
		mp := n.App.CfeminterKeeper.GetParams(ctx)
		if verr := mp.Validate(); verr != nil {
			c.ViolateD("C13/stored-minter-params-invalid", map[string]string{"msg": label}, "after %s the stored minter parameters fail validation: %v", label, verr)
		}
		if v := minterRulesViolation(mp); v != "" {
			c.ViolateD("C13/stored-minter-params-break-rules", map[string]string{"msg": label, "rule": v}, "after %s the stored minter parameters break a validation rule: %s", label, v)
		}
		st := n.App.CfeminterKeeper.GetMinterState(ctx)
		if !mp.ContainsMinter(st.SequenceId) {
			c.ViolateD("C13/current-minter-missing", map[string]string{"msg": label}, "after %s the stored minter parameters do not contain the current period %d", label, st.SequenceId)
		}
		dp := n.App.CfedistributorKeeper.GetParams(ctx)
		if verr := dp.Validate(); verr != nil {
			c.ViolateD("C13/stored-distributor-params-invalid", map[string]string{"msg": label}, "after %s the stored distributor parameters fail validation: %v", label, verr)
		}
		if v := distRulesViolation(dp.SubDistributors); v != "" {
			c.ViolateD("C13/stored-distributor-params-break-rules", map[string]string{"msg": label, "rule": v}, "after %s the stored distributor parameters break a validation rule: %s", label, v)
		}
		vp := n.App.CfevestingKeeper.GetParams(ctx)
		if vp.Denom == "" || sdk.ValidateDenom(vp.Denom) != nil {
			c.ViolateD("C13/stored-vesting-params-break-rules", map[string]string{"msg": label}, "after %s the stored vesting denom %q is not a valid denomination", label, vp.Denom)
		}
		if verr := vp.Validate(); verr != nil {
			c.ViolateD("C13/stored-vesting-params-invalid", map[string]string{"msg": label}, "after %s the stored vesting parameters fail validation: %v", label, verr)
		}
		if poolsExist && vp.Denom != vestDenomBefore {
			c.ViolateD("C13/vesting-denom-changed-with-pools", map[string]string{"msg": label}, "%s changed the vesting denom from %s to %s while pools exist", label, vestDenomBefore, vp.Denom)
		}
		if c.NViol() > 10 {
			break
		}
	}
	if n.InBlock {
		if _, _, err := n.EndBlock(); err != nil {
			c13Block(c, err)
		}
	}
	c.Count("updates_accepted", int64(accepted))
	c.Count("updates_rejected", int64(rejected))
	c.Count("non_governance_attempts", int64(nonGov))
	c.KeepViolations("C13/")
	c.Describe(mc.Describe(), labels, withPools)
	c.Nontrivial(accepted > 0 && rejected > 0 && nonGov > 0)
	if len(labels) > 10 {
		labels = labels[:10]
	}
	c.Sample(map[string]interface{}{"messages": labels, "accepted": accepted, "rejected": rejected, "non_governance_attempts": nonGov, "pools_exist": withPools})
}

func c13Block(c *fw.Case, err error) {
	if p := asPanic(err); p != nil {
		c.ViolateD("C10/block-panic", p.Stack, "%s panicked: %s", p.Where, short(p.Value, 200))
		return
	}
	c.Inconclusive("block: %v", err)
}

// c13Unchanged: a transaction from a non-authority may only cost its signer the sequence bump.
func c13Unchanged(c *fw.Case, n *chain.Node, pre *chain.Snapshot, signer, label string) {
	post := n.Snap()
	if d := chain.DiffStores(pre, post); len(d) > 0 {
		c.ViolateD("C13/non-authority-changed-state", map[string]interface{}{"msg": label, "keys": d}, "%s from a non-authority changed custom-module stores: %v", label, d)
	}
	if len(chain.BalanceDeltas(pre, post)) > 0 || len(chain.DiffSupply(pre, post)) > 0 {
		c.ViolateD("C13/non-authority-changed-state", map[string]interface{}{"msg": label}, "%s from a non-authority moved coins", label)
	}
	for _, a := range chain.DiffAccounts(pre, post) {
		if a != signer {
			c.ViolateD("C13/non-authority-changed-state", map[string]interface{}{"msg": label, "account": a}, "%s from a non-authority changed account %s", label, a)
		}
	}
}

func c13Message(c *fw.Case, n *chain.Node, dk *distEnv, mc gen.MinterConfig, authority string, now time.Time) (sdk.Msg, string) {
	r := c.R
	ctx := n.Ctx()
	switch r.Intn(7) {
	case 0, 1: // minter updates
		cur := n.App.CfeminterKeeper.GetParams(ctx)
		// never rely on the stored listing order, and never on end times being present
		cur.Minters = append([]*minttypes.Minter{}, cur.Minters...)
		sort.SliceStable(cur.Minters, func(i, j int) bool { return cur.Minters[i].SequenceId < cur.Minters[j].SequenceId })
		for i, m := range cur.Minters {
			if i < len(cur.Minters)-1 && m.EndTime == nil {
				return nil, ""
			}
		}
		st := n.App.CfeminterKeeper.GetMinterState(ctx)
		var minters []*minttypes.Minter
		start := cur.StartTime
		label := ""
		class := r.Intn(9)
		if r.Intn(3) == 0 {
			class = 9
		}
		switch class {
		case 9: // the same schedule under other period ids: the id the minter state points at is gone
			shift := uint32(1 + r.Intn(5))
			for _, m := range cur.Minters {
				cp := *m
				cp.SequenceId += shift
				minters = append(minters, &cp)
			}
			label = "periods-renumbered"
			if now.Before(cur.StartTime) {
				label = "periods-renumbered-before-start"
			}
		case 0: // brand-new valid configuration (may or may not contain the current period)
			nc := gen.Minters(r, "uc4e", 30)
			minters, start = nc.Params.Minters, nc.Params.StartTime
			label = "fresh-config"
		case 1: // drop the current period and renumber nothing -> current id missing
			for _, m := range cur.Minters {
				if m.SequenceId != st.SequenceId {
					cp := *m
					minters = append(minters, &cp)
				}
			}
			label = "current-period-dropped"
		case 2: // move end times into the past / future
			for _, m := range cur.Minters {
				cp := *m
				if cp.EndTime != nil {
					t := cp.EndTime.Add(time.Duration(r.Int63n(int64(400*time.Hour))) - 200*time.Hour)
					cp.EndTime = &t
				}
				minters = append(minters, &cp)
			}
			label = "end-times-shifted"
		case 3: // start moved
			minters = cur.Minters
			start = cur.StartTime.Add(time.Duration(r.Int63n(int64(100*time.Hour))) - 50*time.Hour)
			label = "start-shifted"
		case 4: // append a period after the last one
			for i, m := range cur.Minters {
				cp := *m
				if i == len(cur.Minters)-1 {
					base := now
					if i > 0 && cur.Minters[i-1].EndTime.After(base) {
						base = *cur.Minters[i-1].EndTime
					}
					t := base.Add(time.Duration(1+r.Intn(1000)) * time.Hour)
					cp.EndTime = &t
				}
				minters = append(minters, &cp)
			}
			nm := gen.Minters(r, "uc4e", 20).Params.Minters
			last := *nm[len(nm)-1]
			last.SequenceId = minters[len(minters)-1].SequenceId + 1
			last.EndTime = nil
			minters = append(minters, &last)
			label = "period-appended"
		case 5: // a valid list in which one exponential / linear period gets an invalid field
			for _, m := range cur.Minters {
				cp := *m
				minters = append(minters, &cp)
			}
			nm := gen.Minters(r, "uc4e", 20)
			donor := nm.Sorted[len(nm.Sorted)-1]
			if es, ok := donor.Config.GetCachedValue().(*minttypes.ExponentialStepMinting); ok && len(minters) > 0 {
				bad := *es
				switch r.Intn(4) {
				case 0:
					bad.StepDuration = 0
				case 1:
					bad.StepDuration = -time.Hour
				case 2:
					bad.AmountMultiplier = sdk.NewDec(-1)
				default:
					bad.Amount = sdk.ZeroInt()
				}
				a, _ := codectypes.NewAnyWithValue(&bad)
				last := *minters[len(minters)-1]
				last.Config = a
				minters[len(minters)-1] = &last
				label = "invalid-exponential-field"
			} else {
				minters = nil
				label = "structurally-invalid"
			}
		case 6: // two or three periods, the first of which ends at or before the start time
			nc := gen.Minters(r, "uc4e", 30)
			k := 2 + r.Intn(2)
			for len(nc.Sorted) < k {
				nc = gen.Minters(r, "uc4e", 30)
			}
			start = now.Add(-time.Duration(r.Intn(100)) * time.Hour)
			for i := 0; i < k; i++ {
				cp := *nc.Sorted[i]
				cp.SequenceId = uint32(i + 1)
				switch {
				case i == k-1:
					cp.EndTime = nil
					if _, lin := cp.Config.GetCachedValue().(*minttypes.LinearMinting); lin {
						cp.Config, _ = codectypes.NewAnyWithValue(&minttypes.NoMinting{})
					}
				case i == 0:
					t := start.Add(-time.Duration(r.Intn(3)) * time.Hour) // == start or before it
					cp.EndTime = &t
				default:
					t := now.Add(time.Duration(1+r.Intn(500)) * time.Hour)
					cp.EndTime = &t
				}
				minters = append(minters, &cp)
			}
			label = "first-end-not-after-start"
		case 7: // the current period has begun; the end of the one before it moves into the future again
			idx := -1
			for i, m := range cur.Minters {
				if m.SequenceId == st.SequenceId {
					idx = i
				}
			}
			if idx < 1 {
				return nil, ""
			}
			shift := now.Add(time.Duration(1+r.Intn(2000)) * time.Minute).Sub(*cur.Minters[idx-1].EndTime)
			for i, m := range cur.Minters {
				cp := *m
				if i >= idx-1 && cp.EndTime != nil {
					t := cp.EndTime.Add(shift)
					cp.EndTime = &t
				}
				minters = append(minters, &cp)
			}
			label = "previous-end-moved-into-future"
		default: // structurally invalid
			minters = []*minttypes.Minter{nil}
			if r.Intn(2) == 0 {
				minters = nil
			}
			label = "structurally-invalid"
		}
		if minterStepCost(start, minters, now.Add(40*365*24*time.Hour)) > 50000 {
			// the code iterates once per elapsed step; keep that a cost issue, not a hang of the harness
			return nil, ""
		}
		if r.Intn(2) == 0 {
			return &minttypes.MsgUpdateMintersParams{Authority: authority, StartTime: start, Minters: minters}, "minter.UpdateMintersParams/" + label
		}
		denom := []string{"uc4e", "uc4e", "foo", "", "a", "!", "umint", "ufresh"}[r.Intn(8)]
		return &minttypes.MsgUpdateParams{Authority: authority, MintDenom: denom, StartTime: start, Minters: minters}, "minter.UpdateParams/" + label + "/denom=" + denom
	case 2: // distributor full update
		sds := n.App.CfedistributorKeeper.GetParams(ctx).SubDistributors
		switch r.Intn(5) {
		case 0:
			ns := gen.SubDistributors(r, distOpts(dk, true))
			if ns == nil {
				return nil, ""
			}
			return &disttypes.MsgUpdateParams{Authority: authority, SubDistributors: ns}, "distributor.UpdateParams/fresh-config"
		case 1: // remove every sub-distributor with the MAIN source
			var out []disttypes.SubDistributor
			for _, sd := range cloneSubs(sds) {
				hasMain := false
				for _, s := range sd.Sources {
					if s.Type == disttypes.Main {
						hasMain = true
					}
				}
				if !hasMain {
					out = append(out, sd)
				}
			}
			return &disttypes.MsgUpdateParams{Authority: authority, SubDistributors: out}, "distributor.UpdateParams/main-source-removed"
		case 2: // duplicate names
			out := cloneSubs(sds)
			out = append(out, out[0])
			return &disttypes.MsgUpdateParams{Authority: authority, SubDistributors: out}, "distributor.UpdateParams/duplicate-name"
		case 3:
			return &disttypes.MsgUpdateParams{Authority: authority, SubDistributors: nil}, "distributor.UpdateParams/empty"
		default:
			out := cloneSubs(sds)
			c.R.Shuffle(len(out), func(i, j int) { out[i], out[j] = out[j], out[i] })
			return &disttypes.MsgUpdateParams{Authority: authority, SubDistributors: out}, "distributor.UpdateParams/reordered"
		}
	case 3: // single sub-distributor
		sds := n.App.CfedistributorKeeper.GetParams(ctx).SubDistributors
		one := gen.SubDistributors(r, distOpts(dk, true))
		if one == nil || len(sds) == 0 {
			return nil, ""
		}
		repl := one[r.Intn(len(one))]
		repl.Name = sds[r.Intn(len(sds))].Name
		if r.Intn(6) == 0 {
			repl.Name = "does-not-exist"
		}
		return &disttypes.MsgUpdateSubDistributorParam{Authority: authority, SubDistributor: &repl}, "distributor.UpdateSubDistributorParam"
	case 4: // share
		sds := n.App.CfedistributorKeeper.GetParams(ctx).SubDistributors
		var names []string
		for _, sd := range sds {
			for _, sh := range sd.Destinations.Shares {
				names = append(names, sh.Name)
			}
		}
		name := "does-not-exist"
		if len(names) > 0 && r.Intn(6) > 0 {
			name = names[r.Intn(len(names))]
		}
		share := gen.Share(r, new(big.Int).Exp(big.NewInt(10), big.NewInt(18), nil))
		if r.Intn(3) == 0 {
			share = sdk.MustNewDecFromStr("0.999999999999999999") // usually pushes the sum to >= 1
		}
		return &disttypes.MsgUpdateSubDistributorDestinationShareParam{Authority: authority, SubDistributorName: "", DestinationName: name, Share: share}, "distributor.UpdateDestinationShare/" + share.String()
	case 5: // burn share
		sds := n.App.CfedistributorKeeper.GetParams(ctx).SubDistributors
		name := "does-not-exist"
		if len(sds) > 0 && r.Intn(6) > 0 {
			name = sds[r.Intn(len(sds))].Name
		}
		share := gen.Share(r, new(big.Int).Exp(big.NewInt(10), big.NewInt(18), nil))
		if r.Intn(3) == 0 {
			share = sdk.MustNewDecFromStr("0.999999999999999999")
		}
		return &disttypes.MsgUpdateSubDistributorBurnShareParam{Authority: authority, SubDistributorName: name, BurnShare: share}, "distributor.UpdateBurnShare/" + share.String()
	default:
		denoms := []string{"uc4e", "foo", "newdenom", "", "a", "!", " uvest", "uvest ", "uvest\n", "\tfoo", " ", distDenoms[2], "UVEST", "u vest"}
		denom := denoms[r.Intn(len(denoms))]
		return &vesttypes.MsgUpdateDenomParam{Authority: authority, Denom: denom}, fmt.Sprintf("vesting.UpdateDenomParam/%q", denom)
	}
}

// minterStepCost is the largest number of exponential steps any period of the
// configuration would have to iterate when evaluated at `until`.
func minterStepCost(start time.Time, minters []*minttypes.Minter, until time.Time) int64 {
	worst := int64(0)
	cur := start
	for _, m := range minters {
		if m == nil {
			return 0
		}
		end := until
		if m.EndTime != nil && m.EndTime.Before(until) {
			end = *m.EndTime
		}
		if m.Config != nil {
			if es, ok := m.Config.GetCachedValue().(*minttypes.ExponentialStepMinting); ok && es.StepDuration > 0 && end.After(cur) {
				if n := int64(end.Sub(cur)) / int64(es.StepDuration); n > worst {
					worst = n
				}
			}
		}
		if m.EndTime == nil {
			break
		}
		cur = *m.EndTime
	}
	return worst
}

// c13Unbranched makes c13DirectServer run on the block's own context.
var c13Unbranched bool

// c13DirectServer calls the module's MsgServer implementation directly on a branched
// deliver-state context; effects are kept iff it succeeds.
func c13DirectServer(n *chain.Node, msg sdk.Msg) (err error) {
	defer func() {
		if r := recover(); r != nil {
			err = &chain.PanicError{Where: "MsgServer", Value: fmt.Sprint(r), Stack: string(debug.Stack())}
		}
	}()
	cctx, write := n.Ctx().CacheContext()
	if c13Unbranched {
		// the caller does not discard anything: what the server wrote before it refused stays
		cctx, write = n.Ctx(), func() {}
	}
	g := sdk.WrapSDKContext(cctx)
	switch m := msg.(type) {
	case *minttypes.MsgUpdateParams:
		_, err = minterkeeper.NewMsgServerImpl(n.App.CfeminterKeeper).UpdateParams(g, m)
	case *minttypes.MsgUpdateMintersParams:
		_, err = minterkeeper.NewMsgServerImpl(n.App.CfeminterKeeper).UpdateMintersParams(g, m)
	case *disttypes.MsgUpdateParams:
		_, err = distkeeper.NewMsgServerImpl(n.App.CfedistributorKeeper).UpdateParams(g, m)
	case *disttypes.MsgUpdateSubDistributorParam:
		_, err = distkeeper.NewMsgServerImpl(n.App.CfedistributorKeeper).UpdateSubDistributorParam(g, m)
	case *disttypes.MsgUpdateSubDistributorDestinationShareParam:
		_, err = distkeeper.NewMsgServerImpl(n.App.CfedistributorKeeper).UpdateSubDistributorDestinationShareParam(g, m)
	case *disttypes.MsgUpdateSubDistributorBurnShareParam:
		_, err = distkeeper.NewMsgServerImpl(n.App.CfedistributorKeeper).UpdateSubDistributorBurnShareParam(g, m)
	case *vesttypes.MsgUpdateDenomParam:
		_, err = vestkeeper.NewMsgServerImpl(n.App.CfevestingKeeper).UpdateDenomParam(g, m)
	default:
		return fmt.Errorf("no message server for %T", msg)
	}
	if err == nil {
		write()
	}
	return err
}
