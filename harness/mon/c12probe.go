package mon

import (
	"math/big"
	"time"

	"verifharness/chain"
	"verifharness/fw"
	"verifharness/gen"

	minttypes "github.com/chain4energy/c4e-chain/x/cfeminter/types"
)

// c12ShiftProbe: every state reachable through parameter updates must export to a valid
// genesis. The chain runs into period j+1 of a generated schedule; a governance update then
// moves the end of period j (and everything after it) into the future again, so the current
// period has formally not begun; blocks continue across the new boundary. After every block
// the custom modules' genesis sections must validate, and the full export must initialise a
// fresh application.
func c12ShiftProbe(c *fw.Case) {
	r := c.R
	mc := gen.Minters(r, "uc4e", 28)
	for tries := 0; len(mc.Sorted) < 2 && tries < 20; tries++ {
		mc = gen.Minters(r, "uc4e", 28)
	}
	if len(mc.Sorted) < 2 {
		c.Describe("no-config")
		return
	}
	n, err := chain.NewNode(chain.GenesisSpec{Time: gen.Epoch, Minter: minterGenesis(mc.Params, gen.Epoch)})
	if err != nil {
		c.Inconclusive("node: %v", err)
		return
	}
	j := r.Intn(len(mc.Sorted) - 1)
	endJ := *mc.Sorted[j].EndTime
	room := 40 * 24 * time.Hour
	if j+1 < len(mc.Sorted)-1 {
		if d := mc.Sorted[j+1].EndTime.Sub(endJ); d < room {
			room = d
		}
	}
	T := endJ.Add(time.Duration(r.Int63n(int64(room))))
	if !T.After(gen.Epoch) {
		c.Describe("period-ended-before-genesis")
		return
	}
	c.Describe(mc.Describe(), j, fmtTime(T))
	block := 0
	step := func(t time.Time) bool {
		block++
		if _, err := n.BeginBlock(t); err != nil {
			if p := asPanic(err); p != nil {
				c.ViolateD("C12/beginblock-panic/"+panicKey(p.Stack), p.Stack, "BeginBlock panicked at %s: %s", fmtTime(t), short(p.Value, 200))
			}
			return false
		}
		if _, _, err := n.EndBlock(); err != nil {
			return false
		}
		c.Count("blocks", 1)
		c12SectionsValid(c, n, block)
		return c.NViol() == 0
	}
	if T.Sub(gen.Epoch) > 2*time.Second && r.Intn(2) == 0 {
		if !step(gen.Epoch.Add(time.Duration(1 + r.Int63n(int64(T.Sub(gen.Epoch))-1)))) {
			return
		}
	}
	if !step(T) {
		return
	}
	st := n.App.CfeminterKeeper.GetMinterState(n.Ctx())
	if int(st.SequenceId) != j+1+int(mc.FirstID) {
		c.Describe("state-not-in-expected-period")
		return
	}
	delta := time.Duration(1+r.Intn(2000)) * time.Minute
	if es, ok := mc.Sorted[j+1].Config.GetCachedValue().(*minttypes.ExponentialStepMinting); ok && r.Intn(4) > 0 {
		// aim at the instants at which less than one base unit of the new period would be due:
		// amount * delta / step in (0,1)
		k := new(big.Int).Mul(es.Amount.BigInt(), big.NewInt(int64(2+r.Intn(4))))
		if d := new(big.Int).Quo(big.NewInt(int64(es.StepDuration)), k); d.IsInt64() && d.Int64() > int64(3*time.Second) && d.Int64() < int64(40*24*time.Hour) {
			delta = time.Duration(d.Int64())
			c.Count("shift_probes_aimed_below_one_unit", 1)
		}
	}
	shift := T.Add(delta).Sub(endJ)
	var minters []*minttypes.Minter
	for i, m := range mc.Sorted {
		cp := *m
		if i >= j && cp.EndTime != nil {
			t := cp.EndTime.Add(shift)
			cp.EndTime = &t
		}
		minters = append(minters, &cp)
	}
	if _, err := n.BeginBlock(T.Add(time.Second)); err != nil {
		return
	}
	_, _, gerr := n.GovExec(&minttypes.MsgUpdateMintersParams{Authority: govAuthority(), StartTime: mc.Params.StartTime, Minters: minters})
	if _, _, err := n.EndBlock(); err != nil {
		return
	}
	if gerr != nil {
		if p := asPanic(gerr); p != nil {
			c.ViolateD("C12/update-panic/"+panicKey(p.Stack), p.Stack, "the schedule update panicked: %s", short(p.Value, 200))
		}
		c.Count("shift_updates_rejected", 1)
		return
	}
	c.Count("shift_updates_accepted", 1)
	c12SectionsValid(c, n, block)
	for _, t := range []time.Time{T.Add(2 * time.Second), T.Add(delta / 2), T.Add(delta).Add(-time.Nanosecond), T.Add(delta).Add(time.Second), T.Add(delta).Add(time.Hour)} {
		if !t.After(n.Time) {
			continue
		}
		if !step(t) {
			return
		}
	}
	exp, height, err := n.Export()
	if err != nil {
		if p := asPanic(err); p != nil {
			c.ViolateD("C12/export-panic/"+panicKey(p.Stack), p.Stack, "export panicked: %s", short(p.Value, 200))
		}
		return
	}
	if _, err := chain.NewNodeFromGenesis(exp, n.Time, height); err != nil {
		if p := asPanic(err); p != nil {
			c.ViolateD("C12/import-panic/"+panicKey(p.Stack), map[string]string{"stack": short(p.Stack, 3000), "panic": p.Value}, "InitChain from the exported genesis panicked: %s", short(p.Value, 300))
		} else {
			c.Violate("C12/import-error", "InitChain from the exported genesis failed: %v", err)
		}
		return
	}
	c.Count("shift_probe_exports", 1)
	c.Nontrivial(true)
}
