package mon

import (
	"bytes"
	"encoding/hex"
	"encoding/json"
	"fmt"
	"reflect"
	"sort"

	"verifharness/chain"
	"verifharness/fw"

	"github.com/chain4energy/c4e-chain/x/cfedistributor"
	disttypes "github.com/chain4energy/c4e-chain/x/cfedistributor/types"
	"github.com/chain4energy/c4e-chain/x/cfeminter"
	minttypes "github.com/chain4energy/c4e-chain/x/cfeminter/types"
	sigtypes "github.com/chain4energy/c4e-chain/x/cfesignature/types"
	"github.com/chain4energy/c4e-chain/x/cfevesting"
	vesttypes "github.com/chain4energy/c4e-chain/x/cfevesting/types"
	sdk "github.com/cosmos/cosmos-sdk/types"
	authtypes "github.com/cosmos/cosmos-sdk/x/auth/types"
	banktypes "github.com/cosmos/cosmos-sdk/x/bank/types"
)

func init() {
	fw.Register(&fw.Monitor{
		ID: "C12", Level: "exploration",
		Rule: "case = one full-application history (as C10/C11: emission + distribution incl. burn, vesting pools/accounts/traces, signature data, governance updates) exported at 1-2 random heights (also right after a burn and right after a period hand-over when they occur). At each export: " +
			"(a) the four custom sections of the exported genesis pass their own GenesisState.Validate(); (b) InitChain of a fresh application (InitialHeight = exported height) does not panic; (c) a second fresh application initialised from the export and committed re-exports the same cfevesting/cfeminter/cfedistributor/cfesignature/auth/bank sections (canonical JSON); " +
			"(d) the four custom KV stores of the restored application hold the same keys and values as the original (values compared after decoding where 'absent' and 'empty' sub-messages are the same value); (e) original and restored application receive the same 10-25 further blocks and transactions and must agree per block on minted amount, every balance, every transaction result code, the custom query answers and on not panicking. " +
			"Non-trivial: export taken with >=3 of the 4 custom stores non-empty and a burn state present. Distinct by history hash." +
			" In the block before an export somebody tries to pay a module account of the custom modules by a plain transfer.",
		Assumptions:   []string{"application hashes are not compared (IAVL version history legitimately differs after a restart)"},
		Cases:         func(t string) int { return tierN(t, 160, 2500) },
		MinNontrivial: func(t string) int { return tierN(t, 32, 500) },
		Run:           runC12,
	})
}

func canonJSON(raw json.RawMessage) interface{} {
	var v interface{}
	json.Unmarshal(raw, &v)
	return v
}

func storeDump(n *chain.Node, name string) map[string][]byte {
	out := map[string][]byte{}
	it := n.Ctx().KVStore(n.App.GetKey(name)).Iterator(nil, nil)
	defer it.Close()
	for ; it.Valid(); it.Next() {
		out[string(it.Key())] = append([]byte(nil), it.Value()...)
	}
	return out
}

// sameStoreValue: byte equality, or equality after decoding for distributor states.
func sameStoreValue(store string, key string, a, b []byte) bool {
	if bytes.Equal(a, b) {
		return true
	}
	if store == disttypes.StoreKey && len(key) > 0 && key[0] == 0x04 {
		var sa, sb disttypes.State
		if sa.Unmarshal(a) != nil || sb.Unmarshal(b) != nil {
			return false
		}
		norm := func(s disttypes.State) string {
			acc := ""
			if s.Account != nil && (s.Account.Type != "" || s.Account.Id != "") {
				acc = s.Account.Type + "-" + s.Account.Id
			}
			return fmt.Sprintf("%v|%s|%s", s.Burn, acc, s.Remains.String())
		}
		return norm(sa) == norm(sb)
	}
	return false
}

func keyLabel(store, key string) string {
	printable := true
	for _, ch := range []byte(key) {
		if ch < 32 || ch > 126 {
			printable = false
		}
	}
	if printable {
		return key
	}
	return "0x" + hex.EncodeToString([]byte(key))
}

func keyPrefixLabel(store, key string) string {
	switch store {
	case sigtypes.StoreKey:
		for _, p := range []string{sigtypes.SignatureKey, sigtypes.PayloadLinkKey} {
			if len(key) >= len(p) && key[:len(p)] == p {
				return p
			}
		}
	case vesttypes.StoreKey:
		for _, p := range []string{vesttypes.VestingAccountTraceKey, vesttypes.VestingAccountTraceCountKey} {
			if len(key) >= len(p) && key[:len(p)] == p {
				return p
			}
		}
	}
	if len(key) > 0 {
		return fmt.Sprintf("0x%02x", key[0])
	}
	return "empty"
}

func runC12(c *fw.Case) {
	if c.Index%5 == 4 {
		c12ShiftProbe(c)
		return
	}
	r, err := newRich(c, false)
	if err != nil {
		c.Describe("no-config")
		return
	}
	nBlocks := 12 + c.R.Intn(20)
	if c.Tier == "thorough" {
		nBlocks = 25 + c.R.Intn(40)
	}
	exportAt := map[int]bool{2 + c.R.Intn(nBlocks-2): true}
	if c.R.Intn(2) == 0 {
		exportAt[2+c.R.Intn(nBlocks-2)] = true
	}
	c.Describe(r.mc.Describe(), nBlocks, fmt.Sprint(exportAt))
	c.Describe(r.e.n.App.CfedistributorKeeper.GetParams(r.e.n.Ctx()).String())
	exports, nontrivial := 0, false
	prevSeq := uint32(1)
	for b := 1; b <= nBlocks+20; b++ {
		burnBefore := r.burnBlocks
		r.begin(r.nextTime(c))
		if r.lastBeginErr[0] != nil {
			c.Count("histories_cut_short_by_panic", 1)
			break
		}
		// followers (restored replicas) must behave like the primary
		for i := 1; i < len(r.lastBeginErr); i++ {
			if p := asPanic(r.lastBeginErr[i]); p != nil {
				c.ViolateD("C12/restored-app-panics/"+panicKey(p.Stack), map[string]string{"stack": short(p.Stack, 3000)}, "BeginBlock panicked on the application restored from the exported genesis (block %d): %s", b, short(p.Value, 200))
				r.followers = nil
			}
		}
		if len(r.followers) > 0 {
			c12CompareBlock(c, r, "after BeginBlock")
		}
		r.traffic(c, 3)
		if exportAt[b] && c.R.Intn(2) == 0 {
			// somebody tries to pay a module account of the custom modules in the very block
			// after which the state is exported (coins that reach the distributor's main account
			// by a transfer are only booked by the next BeginBlock)
			names := []string{disttypes.DistributorMainAccount, disttypes.GreenEnergyBoosterCollector, disttypes.GovernanceBoosterCollector, minttypes.ModuleName, vesttypes.ModuleName}
			to := authtypes.NewModuleAddress(names[c.R.Intn(len(names))])
			from := r.e.owners[c.R.Intn(len(r.e.owners))]
			r.deliver(from, nil, banktypes.NewMsgSend(from.Addr, to, sdk.NewCoins(sdk.NewCoin("uc4e", sdk.NewInt(int64(1+c.R.Intn(100000)))))))
			c.Count("transfers_to_module_accounts_before_export", 1)
		}
		if len(r.followers) > 0 {
			for i := 1; i < len(r.lastTx); i++ {
				if len(r.lastTx) > 0 && r.lastTx[i].Code != r.lastTx[0].Code {
					c.Violate("C12/behaviour-diverged/tx-code", "a transaction got code %d on the original and %d on the restored application", r.lastTx[0].Code, r.lastTx[i].Code)
				}
			}
			c12CompareBlock(c, r, "after the block's transactions")
		}
		if errs := r.end(); errs[0] != nil {
			break
		}
		c.Count("blocks", 1)
		// the custom modules' own genesis sections must validate after every block (the full
		// export -> import round trip below is done at a few heights only)
		c12SectionsValid(c, r.e.n, b)
		if c.NViol() > 0 {
			break
		}
		st := r.e.n.App.CfeminterKeeper.GetMinterState(r.e.n.Ctx())
		handover := st.SequenceId != prevSeq
		prevSeq = st.SequenceId
		burned := r.burnBlocks > burnBefore
		if b > nBlocks && len(r.followers) == 0 {
			break
		}
		if b <= nBlocks && (exportAt[b] || (exports < 3 && len(r.followers) == 0 && (handover || burned) && c.R.Intn(3) == 0)) {
			exports++
			nt := c12ExportImport(c, r, b)
			nontrivial = nontrivial || nt
			if handover {
				c.Count("exports_right_after_period_handover", 1)
			}
			if burned {
				c.Count("exports_right_after_burn", 1)
			}
		}
		if len(r.followers) > 0 && c.R.Intn(12) == 0 {
			// stop following after a while so that a later export starts from a clean pair
			r.followers = nil
		}
	}
	c.Count("exports", int64(exports))
	c.Count("txs", int64(r.txCount))
	c.Count("real_gov_proposals_submitted", int64(r.proposals))
	c.Nontrivial(nontrivial)
	c.Sample(map[string]interface{}{"minter": r.mc.Describe(), "blocks": nBlocks, "exports": exports, "txs": r.txCount})
}

// c12ExportImport performs (a)-(d) and installs the restored app as follower for (e).
func c12ExportImport(c *fw.Case, r *rich, block int) (nontrivial bool) {
	a := r.e.n
	exp, height, err := a.Export()
	if err != nil {
		if p := asPanic(err); p != nil {
			c.ViolateD("C12/export-panic/"+panicKey(p.Stack), p.Stack, "export panicked at block %d: %s", block, short(p.Value, 200))
		} else {
			c.Violate("C12/export-error", "export failed: %v", err)
		}
		return false
	}
	var sections map[string]json.RawMessage
	if err := json.Unmarshal(exp, &sections); err != nil {
		c.Violate("C12/export-error", "exported genesis is not a JSON object: %v", err)
		return false
	}
	cdc := a.Enc.Marshaler
	// (a) custom sections validate
	var vg vesttypes.GenesisState
	var mg minttypes.GenesisState
	var dg disttypes.GenesisState
	var sg sigtypes.GenesisState
	for name, tgt := range map[string]interface {
		Validate() error
	}{} {
		_, _ = name, tgt
	}
	if err := cdc.UnmarshalJSON(sections[vesttypes.ModuleName], &vg); err != nil {
		c.Violate("C12/exported-genesis-undecodable/cfevesting", "%v", err)
	} else if err := vg.Validate(); err != nil {
		c.ViolateD("C12/exported-genesis-invalid/cfevesting", string(sections[vesttypes.ModuleName]), "exported cfevesting genesis fails its own validation: %v", err)
	}
	if err := cdc.UnmarshalJSON(sections[minttypes.ModuleName], &mg); err != nil {
		c.Violate("C12/exported-genesis-undecodable/cfeminter", "%v", err)
	} else if err := mg.Validate(); err != nil {
		c.ViolateD("C12/exported-genesis-invalid/cfeminter", string(sections[minttypes.ModuleName]), "exported cfeminter genesis fails its own validation: %v", err)
	}
	if err := cdc.UnmarshalJSON(sections[disttypes.ModuleName], &dg); err != nil {
		c.Violate("C12/exported-genesis-undecodable/cfedistributor", "%v", err)
	} else if err := dg.Validate(); err != nil {
		c.ViolateD("C12/exported-genesis-invalid/cfedistributor", string(sections[disttypes.ModuleName]), "exported cfedistributor genesis fails its own validation: %v", err)
	}
	if err := cdc.UnmarshalJSON(sections[sigtypes.ModuleName], &sg); err != nil {
		c.Violate("C12/exported-genesis-undecodable/cfesignature", "%v", err)
	} else if err := sg.Validate(); err != nil {
		c.Violate("C12/exported-genesis-invalid/cfesignature", "exported cfesignature genesis fails its own validation: %v", err)
	}
	// non-triviality: which custom stores hold data, burn state present
	nonEmpty := 0
	for _, st := range chain.CustomStores {
		if len(storeDump(a, st)) > 1 {
			nonEmpty++
		}
	}
	burnState := false
	for _, s := range dg.States {
		if s.Burn {
			burnState = true
		}
	}
	nontrivial = nonEmpty >= 3 && burnState
	// (b) fresh application from the export
	bApp, err := chain.NewNodeFromGenesis(exp, r.now, height)
	if err != nil {
		if p := asPanic(err); p != nil {
			c.ViolateD("C12/import-panic/"+panicKey(p.Stack), map[string]string{"stack": short(p.Stack, 3000), "panic": p.Value}, "InitChain from the exported genesis panicked: %s", short(p.Value, 300))
		} else {
			c.Violate("C12/import-error", "InitChain from the exported genesis failed: %v", err)
		}
		return nontrivial
	}
	// (d) store contents
	for _, st := range chain.CustomStores {
		da, db := storeDump(a, st), storeDump(bApp, st)
		lostByPrefix := map[string]int{}
		keys := map[string]bool{}
		for k := range da {
			keys[k] = true
		}
		for k := range db {
			keys[k] = true
		}
		var ks []string
		for k := range keys {
			ks = append(ks, k)
		}
		sort.Strings(ks)
		for _, k := range ks {
			va, oka := da[k]
			vb, okb := db[k]
			switch {
			case oka && !okb:
				lostByPrefix[keyPrefixLabel(st, k)]++
			case !oka && okb:
				c.ViolateD("C12/data-invented/store="+st+"/prefix="+keyPrefixLabel(st, k), map[string]string{"key": keyLabel(st, k)}, "store %s of the restored application has key %s that the original does not have", st, keyLabel(st, k))
			case !sameStoreValue(st, k, va, vb):
				c.ViolateD("C12/data-changed/store="+st+"/prefix="+keyPrefixLabel(st, k), map[string]string{"key": keyLabel(st, k), "original": hex.EncodeToString(va), "restored": hex.EncodeToString(vb)}, "store %s key %s differs between original and restored application", st, keyLabel(st, k))
			}
		}
		for p, cnt := range lostByPrefix {
			c.ViolateD("C12/data-loss/store="+st+"/prefix="+p, map[string]int{"entries_lost": cnt}, "export/import lost %d entries of store %s under prefix %s", cnt, st, p)
		}
		// so that the behavioural comparison below is about everything else, lost
		// entries are copied over by hand (the loss itself has been reported)
		if len(lostByPrefix) > 0 {
			kv := bApp.Ctx().KVStore(bApp.App.GetKey(st))
			for k, v := range da {
				if _, ok := db[k]; !ok {
					kv.Set([]byte(k), v)
				}
			}
		}
	}
	// (c) re-export from a second, committed application
	if cApp, err := chain.NewNodeFromGenesis(exp, r.now, height); err == nil {
		func() {
			defer func() {
				if rec := recover(); rec != nil {
					c.Violate("C12/reexport-panic", "commit/re-export of the restored application panicked: %v", rec)
				}
			}()
			cApp.App.Commit()
			exp2, _, err := cApp.Export()
			if err != nil {
				c.Violate("C12/reexport-error", "re-export failed: %v", err)
				return
			}
			var sections2 map[string]json.RawMessage
			json.Unmarshal(exp2, &sections2)
			for _, sec := range []string{vesttypes.ModuleName, minttypes.ModuleName, disttypes.ModuleName, sigtypes.ModuleName, "auth", "bank"} {
				if !reflect.DeepEqual(canonJSON(sections[sec]), canonJSON(sections2[sec])) {
					c.ViolateD("C12/reexport-differs/section="+sec, map[string]string{"original": short(string(sections[sec]), 3000), "reexport": short(string(sections2[sec]), 3000)}, "section %s of the re-exported genesis differs from the exported one", sec)
				}
			}
			c.Count("reexports_compared", 1)
		}()
	}
	c.Count("imports", 1)
	r.followers = []*chain.Node{bApp}
	return nontrivial
}

// c12CompareBlock compares the observable state of the original and the restored application.
func c12CompareBlock(c *fw.Case, r *rich, where string) {
	a, b := r.e.n, r.followers[0]
	sa, sb := a.Snap(), b.Snap()
	for _, d := range chain.DiffSupply(sa, sb) {
		c.Violate("C12/behaviour-diverged/supply", "%s: supply of %s is %s on the original and %s on the restored application", where, d, sa.Sup(d), sb.Sup(d))
		return
	}
	for addr, m := range chain.BalanceDeltas(sa, sb) {
		c.ViolateD("C12/behaviour-diverged/balance", map[string]string{"address": addr}, "%s: balance of %s differs between original and restored application by %s", where, short(addr, 14), mapStr(m))
		return
	}
	// custom query answers
	ca, cb := sdk.WrapSDKContext(a.Ctx()), sdk.WrapSDKContext(b.Ctx())
	cmp := func(name string, fa, fb func() (interface{}, error)) {
		ra, ea := fa()
		rb, eb := fb()
		if (ea == nil) != (eb == nil) || fw.JSON(ra) != fw.JSON(rb) {
			c.ViolateD("C12/behaviour-diverged/query="+name, map[string]string{"original": short(fw.JSON(ra), 1500), "restored": short(fw.JSON(rb), 1500)}, "%s: query %s answers differently on the restored application", where, name)
		}
	}
	cmp("minter.State", func() (interface{}, error) { return a.App.CfeminterKeeper.State(ca, &minttypes.QueryStateRequest{}) }, func() (interface{}, error) { return b.App.CfeminterKeeper.State(cb, &minttypes.QueryStateRequest{}) })
	cmp("minter.Inflation", func() (interface{}, error) {
		return a.App.CfeminterKeeper.Inflation(ca, &minttypes.QueryInflationRequest{})
	}, func() (interface{}, error) {
		return b.App.CfeminterKeeper.Inflation(cb, &minttypes.QueryInflationRequest{})
	})
	cmp("vesting.VestingsSummary", func() (interface{}, error) {
		return a.App.CfevestingKeeper.VestingsSummary(ca, &vesttypes.QueryVestingsSummaryRequest{})
	}, func() (interface{}, error) {
		return b.App.CfevestingKeeper.VestingsSummary(cb, &vesttypes.QueryVestingsSummaryRequest{})
	})
	cmp("vesting.GenesisVestingsSummary", func() (interface{}, error) {
		return a.App.CfevestingKeeper.GenesisVestingsSummary(ca, &vesttypes.QueryGenesisVestingsSummaryRequest{})
	}, func() (interface{}, error) {
		return b.App.CfevestingKeeper.GenesisVestingsSummary(cb, &vesttypes.QueryGenesisVestingsSummaryRequest{})
	})
	for _, o := range r.e.owners {
		owner := o.Bech()
		cmp("vesting.VestingPools", func() (interface{}, error) {
			return a.App.CfevestingKeeper.VestingPools(ca, &vesttypes.QueryVestingPoolsRequest{Owner: owner})
		}, func() (interface{}, error) {
			return b.App.CfevestingKeeper.VestingPools(cb, &vesttypes.QueryVestingPoolsRequest{Owner: owner})
		})
	}
	// distributor states (decoded, burn account normalised)
	stA, stB := a.App.CfedistributorKeeper.GetAllStates(a.Ctx()), b.App.CfedistributorKeeper.GetAllStates(b.Ctx())
	norm := func(ss []disttypes.State) []string {
		var out []string
		for _, s := range ss {
			acc := ""
			if s.Account != nil && (s.Account.Type != "" || s.Account.Id != "") {
				acc = s.Account.Type + "-" + s.Account.Id
			}
			out = append(out, fmt.Sprintf("%v|%s|%s", s.Burn, acc, s.Remains.String()))
		}
		sort.Strings(out)
		return out
	}
	if !reflect.DeepEqual(norm(stA), norm(stB)) {
		c.ViolateD("C12/behaviour-diverged/distributor-states", map[string]interface{}{"original": norm(stA), "restored": norm(stB)}, "%s: distributor states differ between original and restored application", where)
	}
	c.Count("block_comparisons", 1)
}

// c12SectionsValid exports the genesis sections of the custom modules from the current state
// and runs their validation.
func c12SectionsValid(c *fw.Case, n *chain.Node, block int) {
	ctx := n.Ctx()
	if p := safeCall("ExportGenesis", func() {
		if err := cfeminter.ExportGenesis(ctx, n.App.CfeminterKeeper).Validate(); err != nil {
			c.ViolateD("C12/exported-genesis-invalid/cfeminter", map[string]string{"block": fmt.Sprint(block), "state": fmt.Sprintf("%+v", n.App.CfeminterKeeper.GetMinterState(ctx))}, "exported cfeminter genesis fails its own validation: %v", err)
		}
		if err := cfedistributor.ExportGenesis(ctx, n.App.CfedistributorKeeper).Validate(); err != nil {
			c.ViolateD("C12/exported-genesis-invalid/cfedistributor", map[string]string{"block": fmt.Sprint(block)}, "exported cfedistributor genesis fails its own validation: %v", err)
		}
		if err := cfevesting.ExportGenesis(ctx, n.App.CfevestingKeeper).Validate(); err != nil {
			c.ViolateD("C12/exported-genesis-invalid/cfevesting", map[string]string{"block": fmt.Sprint(block)}, "exported cfevesting genesis fails its own validation: %v", err)
		}
	}); p != nil {
		c.ViolateD("C12/export-panic/"+panicKey(p.Stack), p.Stack, "exporting a custom module's genesis panicked at block %d: %s", block, short(p.Value, 200))
	}
	c.Count("section_validations", 1)
}
