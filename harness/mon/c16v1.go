package mon

import (
	"fmt"
	"math/big"
	"time"

	"verifharness/chain"
	"verifharness/fw"
	"verifharness/gen"

	vestv1 "github.com/chain4energy/c4e-chain/x/cfevesting/migrations/v1"
	vestv2 "github.com/chain4energy/c4e-chain/x/cfevesting/migrations/v2"
	vesttypes "github.com/chain4energy/c4e-chain/x/cfevesting/types"
	sdk "github.com/cosmos/cosmos-sdk/types"
)

// c16V1Probe: the older of the two cfevesting store migrations (consensus version 1 -> 2,
// x/cfevesting/migrations/v2) on a generated store in the first format. A v1 pool records
// the amount put in (vested), everything withdrawn so far, and a snapshot taken at its last
// modification (time, amount left at that moment, amount withdrawn since). The staged pools
// are built from a history - put in V, sent S, withdrawn Wb before and Wa after the last
// modification - so the expected result does not come from the migration's own formula:
// initially locked V, sent S, withdrawn Wb+Wa, the locked total unchanged, names, types and
// lock times kept; vesting types keep their periods.
func c16V1Probe(c *fw.Case) {
	r := c.R
	n, err := chain.NewNode(chain.GenesisSpec{Time: gen.Epoch})
	if err != nil {
		c.Inconclusive("node: %v", err)
		return
	}
	ctx := n.Ctx()
	app := n.App
	store := ctx.KVStore(app.GetKey(vesttypes.StoreKey))
	// clear what genesis wrote in today's format
	for _, pfx := range [][]byte{vesttypes.AccountVestingPoolsKeyPrefix, vesttypes.VestingTypesKeyPrefix} {
		it := sdk.KVStorePrefixIterator(store, pfx)
		var keys [][]byte
		for ; it.Valid(); it.Next() {
			keys = append(keys, append([]byte{}, it.Key()...))
		}
		it.Close()
		for _, k := range keys {
			store.Delete(k)
		}
	}
	cdc := app.AppCodec()
	type want struct {
		owner, name, vtype string
		start, end         time.Time
		v, s, w            *big.Int
	}
	var wants []want
	total := new(big.Int)
	nOwners := 1 + r.Intn(30)
	sameBlock := 0
	for i := 0; i < nOwners; i++ {
		owner := chain.NewKey(fmt.Sprintf("c16v1-%d-%d", c.Index, i)).Bech()
		old := vestv1.AccountVestingPools{Address: owner}
		for j := 0; j < r.Intn(4); j++ {
			v := new(big.Int).Add(gen.BigAmount(r, 20), big.NewInt(1))
			part := func(max *big.Int) *big.Int {
				if r.Intn(3) == 0 || max.Sign() == 0 {
					return new(big.Int)
				}
				return new(big.Int).Rand(r, new(big.Int).Add(max, big.NewInt(1)))
			}
			s := part(v)
			wb := part(new(big.Int).Sub(v, s))
			wa := part(new(big.Int).Sub(new(big.Int).Sub(v, s), wb))
			if r.Intn(6) == 0 { // used up exactly
				wa = new(big.Int).Sub(new(big.Int).Sub(v, s), wb)
			}
			ls := gen.Epoch.Add(-time.Duration(1+r.Intn(5000)) * time.Hour)
			le := ls.Add(time.Duration(1+r.Intn(20000)) * time.Hour)
			lm := ls.Add(time.Duration(1+r.Intn(1000)) * time.Minute)
			if r.Intn(3) == 0 {
				lm = ls // modified (sent from / withdrawn) in the block that created it
				sameBlock++
			}
			w := new(big.Int).Add(wb, wa)
			p := &vestv1.VestingPool{Id: int32(j + 1), Name: fmt.Sprintf("pool%d", j), VestingType: []string{"Validators", "Advisors", "Other"}[r.Intn(3)], LockStart: ls, LockEnd: le,
				Vested: sdk.NewIntFromBigInt(v), Withdrawn: sdk.NewIntFromBigInt(w), Sent: sdk.NewIntFromBigInt(s), LastModification: lm,
				LastModificationVested: sdk.NewIntFromBigInt(new(big.Int).Sub(new(big.Int).Sub(v, s), wb)), LastModificationWithdrawn: sdk.NewIntFromBigInt(wa)}
			old.VestingPools = append(old.VestingPools, p)
			wants = append(wants, want{owner, p.Name, p.VestingType, ls, le, v, s, w})
			total.Add(total, new(big.Int).Sub(new(big.Int).Sub(v, s), w))
		}
		bz, merr := cdc.Marshal(&old)
		if merr != nil {
			c.Inconclusive("marshal: %v", merr)
			return
		}
		store.Set(append(append([]byte{}, vestv1.AccountVestingPoolsKeyPrefix...), []byte(owner)...), bz)
	}
	oldTypes := vestv1.VestingTypes{}
	for _, nm := range []string{"Validators", "Advisors", "Other"} {
		oldTypes.VestingTypes = append(oldTypes.VestingTypes, &vestv1.VestingType{Name: nm, LockupPeriod: time.Duration(r.Intn(1000)) * time.Hour, VestingPeriod: time.Duration(r.Intn(1000))*time.Hour + time.Duration(r.Intn(1000))*time.Millisecond})
	}
	bz, _ := cdc.Marshal(&oldTypes)
	store.Set(vestv1.VestingTypesKey, bz)
	c.Describe("v1->v2", nOwners, len(wants), total.String())

	var merr error
	if p := safeCall("MigrateStore", func() { merr = vestv2.MigrateStore(ctx, app.GetKey(vesttypes.StoreKey), cdc) }); p != nil {
		c.ViolateD("C16/v1-migration-panic/"+panicKey(p.Stack), map[string]string{"panic": short(p.Value, 400), "stack": short(p.Stack, 3000)}, "the version 1 -> 2 store migration panicked: %s", short(p.Value, 200))
		return
	}
	if merr != nil {
		c.Violate("C16/v1-migration-failed", "the version 1 -> 2 store migration of a consistent store failed: %v", merr)
		return
	}
	c.Count("v1_store_migrations", 1)
	c.Count("v1_pools_modified_in_their_creation_block", int64(sameBlock))
	got := map[string]*vesttypes.VestingPool{}
	postTotal := new(big.Int)
	count := 0
	for _, avp := range app.CfevestingKeeper.GetAllAccountVestingPools(ctx) {
		for _, p := range avp.VestingPools {
			got[avp.Owner+"/"+p.Name] = p
			postTotal.Add(postTotal, p.GetCurrentlyLocked().BigInt())
			count++
		}
	}
	if count != len(wants) {
		c.Violate("C16/v1-pool-count", "%d pools before the version 1 -> 2 migration, %d after", len(wants), count)
	}
	for _, w := range wants {
		p := got[w.owner+"/"+w.name]
		if p == nil {
			c.Violate("C16/v1-pool-missing", "pool %s of %s is missing after the version 1 -> 2 migration", w.name, short(w.owner, 14))
			continue
		}
		if p.InitiallyLocked.BigInt().Cmp(w.v) != 0 || p.Sent.BigInt().Cmp(w.s) != 0 || p.Withdrawn.BigInt().Cmp(w.w) != 0 {
			c.ViolateD("C16/v1-pool-history-changed", map[string]string{"pool": p.String()}, "pool %s: put in %s, sent %s, withdrawn %s before the version 1 -> 2 migration; initially locked %s, sent %s, withdrawn %s after", w.name, w.v, w.s, w.w, p.InitiallyLocked, p.Sent, p.Withdrawn)
		}
		if p.VestingType != w.vtype || !p.LockStart.Equal(w.start) || !p.LockEnd.Equal(w.end) {
			c.Violate("C16/v1-pool-changed", "pool %s: vesting type / lock times changed by the version 1 -> 2 migration", w.name)
		}
	}
	if postTotal.Cmp(total) != 0 {
		c.Violate("C16/v1-total-locked-changed", "total locked changed from %s to %s in the version 1 -> 2 migration", total, postTotal)
	}
	for _, ot := range oldTypes.VestingTypes {
		vt, gerr := app.CfevestingKeeper.GetVestingType(ctx, ot.Name)
		if gerr != nil || vt.LockupPeriod != ot.LockupPeriod || vt.VestingPeriod != ot.VestingPeriod {
			c.Violate("C16/v1-vesting-type-changed", "vesting type %s: periods %s/%s before the version 1 -> 2 migration, %v/%v after (err %v)", ot.Name, ot.LockupPeriod, ot.VestingPeriod, vt.LockupPeriod, vt.VestingPeriod, gerr)
		}
	}
	c.Nontrivial(len(wants) >= 3 && sameBlock > 0)
}
