package mon

import (
	"verifharness/chain"
	"verifharness/fw"
)

func init() {
	fw.Register(&fw.Monitor{
		ID: "C10", Level: "fault_enumeration",
		Rule: "case = one full-application history through ABCI: generated valid emission configuration (amounts < 10^28..10^36, periods/steps >= 1s, multiplier <= 1) x generated valid sub-distributor configuration (incl. a permanently blocked destination and a locked-coin source) x 20-45 blocks (thorough 40-90) hugging schedule and vesting boundaries, " +
			"with vesting/bank/staking transactions, signature messages, and governance updates at random points: all 2+4+1 update messages incl. start/end times moved into past/future, periods dropped/appended, shares/burn changed, sub-distributors replaced, odd denominations. At a random height the state is exported, a fresh application is initialised from it (InitialHeight = exported height) and both replicas keep receiving the same blocks. " +
			"Oracle: no panic escapes BeginBlock/EndBlock/Commit of any replica (recover() around the ABCI calls, stack recorded; key = innermost repository frame). Non-trivial: >=1 accepted update, the export/import happened and >=1 block burned coins before it. Distinct by configuration+history hash." +
			" The shared workload also grants fee allowances and authorizations to module addresses of the custom modules (x/feegrant and x/authz create the grantee's account), submits legacy parameter-change proposals and real governance proposals.",
		Assumptions:   []string{"magnitude guards of the property are enforced by the generator", "fault dimension: persistent natural transfer failures (blocked destination, locked source), update timing and export/restart point are enumerated by seed, not exhaustively"},
		Cases:         func(t string) int { return tierN(t, 480, 6000) },
		MinNontrivial: func(t string) int { return tierN(t, 50, 600) },
		Run:           runC10,
	})
}

func runC10(c *fw.Case) {
	if c.Index%8 == 5 {
		// "every persistent transfer failure": the distributor under injected bank failures
		// (C14's configurations and failure schedules); here only a panicking BeginBlocker counts
		runC14(c)
		c.MapViolationKeys(func(k string) string {
			if k == "C14/beginblock-panic" {
				return "C10/beginblock-panic-under-transfer-failures"
			}
			return ""
		})
		c.Count("fault_injection_cases", 1)
		return
	}
	r, err := newRich(c, false)
	if err != nil {
		if p := asPanic(err); p != nil {
			c.ViolateD("C10/initchain-panic/"+panicKey(p.Stack), p.Stack, "InitChain panicked for a generated valid configuration: %s", short(p.Value, 300))
			return
		}
		c.Describe("no-config")
		return
	}
	nBlocks := 20 + c.R.Intn(26)
	if c.Tier == "thorough" {
		nBlocks = 40 + c.R.Intn(51)
	}
	exportAt := 3 + c.R.Intn(nBlocks-4)
	imported := false
	burnBeforeExport := false
	c.Describe(r.mc.Describe(), r.dk != nil, nBlocks, exportAt)
	cfg := r.e.n.App.CfedistributorKeeper.GetParams(r.e.n.Ctx())
	c.Describe(cfg.String())
	dead := map[int]bool{}
	for b := 1; b <= nBlocks; b++ {
		r.begin(r.nextTime(c))
		for i, err := range r.lastBeginErr {
			if err == nil || dead[i] {
				continue
			}
			dead[i] = true
			if p := asPanic(err); p != nil {
				who := "primary"
				if i > 0 {
					who = "replica restored from exported genesis"
				}
				c.ViolateD("C10/beginblock-panic/"+panicKey(p.Stack), map[string]string{"replica": who, "minter": r.mc.Describe(), "block": fmtTime(r.now), "stack": short(p.Stack, 4000)}, "BeginBlock panicked on the %s at block %d (%s): %s", who, b, fmtTime(r.now), short(p.Value, 300))
			} else {
				c.Inconclusive("beginblock: %v", err)
			}
		}
		if dead[0] {
			break
		}
		if len(dead) > 0 {
			// drop dead followers
			var alive []*chain.Node
			for i, n := range r.followers {
				if !dead[i+1] {
					alive = append(alive, n)
				}
			}
			r.followers = alive
			dead = map[int]bool{}
		}
		r.traffic(c, 3)
		for i, err := range r.end() {
			if err == nil {
				continue
			}
			if p := asPanic(err); p != nil {
				c.ViolateD("C10/endblock-panic/"+panicKey(p.Stack), map[string]string{"stack": short(p.Stack, 4000)}, "EndBlock/Commit panicked on replica %d at block %d: %s", i, b, short(p.Value, 300))
			}
			if i == 0 {
				dead[0] = true
			}
		}
		if dead[0] {
			break
		}
		c.Count("blocks", 1)
		if b == exportAt {
			burnBeforeExport = r.burnBlocks > 0
			bz, h, err := r.e.n.Export()
			if err != nil {
				c.Count("export_failed", 1)
				continue
			}
			f, err := chain.NewNodeFromGenesis(bz, r.now, h)
			if err != nil {
				c.Count("import_failed", 1) // C12's business
				continue
			}
			r.followers = append(r.followers, f)
			imported = true
		}
	}
	c.Count("updates_accepted", int64(r.updatesOK))
	c.Count("updates_rejected", int64(r.updatesReject))
	c.Count("txs", int64(r.txCount))
	c.Count("real_gov_proposals_submitted", int64(r.proposals))
	c.Count("grants_to_module_and_fresh_addresses", int64(r.grants))
	c.Count("blocks_with_burn", int64(r.burnBlocks))
	if imported {
		c.Count("export_import_done", 1)
	}
	c.KeepViolations("C10/")
	c.Nontrivial(r.updatesOK > 0 && imported && burnBeforeExport)
	c.Sample(map[string]interface{}{"minter": r.mc.Describe(), "blocks": nBlocks, "export_at": exportAt, "updates_accepted": r.updatesOK, "txs": r.txCount, "burn_blocks": r.burnBlocks})
}
