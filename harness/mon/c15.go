package mon

import (
	"crypto"
	"crypto/ecdsa"
	"crypto/elliptic"
	crand "crypto/rand"
	"crypto/rsa"
	"crypto/sha256"
	"crypto/x509"
	"crypto/x509/pkix"
	"encoding/base64"
	"encoding/hex"
	"encoding/json"
	"encoding/pem"
	"fmt"
	"math/big"
	"strings"
	"time"

	"verifharness/chain"
	"verifharness/fw"
	"verifharness/gen"

	sigtypes "github.com/chain4energy/c4e-chain/x/cfesignature/types"
	sdk "github.com/cosmos/cosmos-sdk/types"
)

func init() {
	fw.Register(&fw.Monitor{
		ID: "C15", Level: "exploration",
		Rule: "case = one chain with harness-generated self-signed certificates (ECDSA P-256; RSA-2048 in every 4th case), 3 valid records (address, 64-hex reference id, payload hash) stored through the real message server (PublishReferencePayloadLink + StoreSignature, storage keys from the module's own queries) and ~12 single-field mutations each stored as its own record " +
			"(signature byte flipped, signed over another address / reference id / payload link, algorithm of the other family or unknown, certificate of another key, garbage PEM, non-base64 signature, missing link). Oracle: independent verification (crypto/ecdsa.VerifyASN1 / rsa.VerifyPKCS1v15 over sha256(hex(sha256(addr:refId:link))) with the key parsed from the stored PEM) decides the expected answer of VerifySignature; " +
			"a valid answer must return signature, algorithm, certificate and timestamp equal to the stored object (read back from the raw store). Write-once: after every message, including re-publishes of the same key with other / empty values before and after a commit, every link first stored under a key is still there unchanged and the overwriting publish was refused. " +
			"Non-trivial: >=1 record verified valid before its mutations and >=1 overwrite attempt refused. Distinct by generated keys/ids." +
			" Also: long links (150-3000 characters), certificate bundles, differently named algorithms, the upper-case spelling of an address used consistently, RSA signatures with a leading zero byte.",
		Assumptions:   []string{"the signature module's message service is not registered on this tree; its real message server is driven on a branched deliver-state context (see DESIGN.md §1.3)", "key generation uses crypto/rand: byte-level inputs differ between runs, verdicts do not"},
		Cases:         func(t string) int { return tierN(t, 192, 4000) },
		MinNontrivial: func(t string) int { return tierN(t, 40, 2000) },
		Run:           runC15,
	})
}

type c15Signer struct {
	algo   string
	ecKey  *ecdsa.PrivateKey
	rsaKey *rsa.PrivateKey
	pem    string
}

func newC15Signer(useRSA bool) (*c15Signer, error) {
	tmpl := &x509.Certificate{SerialNumber: big.NewInt(time.Now().UnixNano()), Subject: pkix.Name{CommonName: "verif"}, NotBefore: time.Now().Add(-time.Hour), NotAfter: time.Now().Add(24 * time.Hour)}
	s := &c15Signer{}
	var der []byte
	var err error
	if useRSA {
		s.rsaKey, err = rsa.GenerateKey(crand.Reader, 2048)
		if err != nil {
			return nil, err
		}
		s.algo = "sha256WithRsaEncryption"
		der, err = x509.CreateCertificate(crand.Reader, tmpl, tmpl, &s.rsaKey.PublicKey, s.rsaKey)
	} else {
		s.ecKey, err = ecdsa.GenerateKey(elliptic.P256(), crand.Reader)
		if err != nil {
			return nil, err
		}
		s.algo = "ecdsaWithSha256"
		der, err = x509.CreateCertificate(crand.Reader, tmpl, tmpl, &s.ecKey.PublicKey, s.ecKey)
	}
	if err != nil {
		return nil, err
	}
	s.pem = string(pem.EncodeToMemory(&pem.Block{Type: "CERTIFICATE", Bytes: der}))
	return s, nil
}

func c15Payload(addr, refID, link string) string {
	h := sha256.Sum256([]byte(addr + ":" + refID + ":" + link))
	return hex.EncodeToString(h[:])
}

func (s *c15Signer) sign(payload string) string {
	d := sha256.Sum256([]byte(payload))
	var sig []byte
	if s.rsaKey != nil {
		sig, _ = rsa.SignPKCS1v15(crand.Reader, s.rsaKey, crypto.SHA256, d[:])
	} else {
		sig, _ = ecdsa.SignASN1(crand.Reader, s.ecKey, d[:])
	}
	return base64.StdEncoding.EncodeToString(sig)
}

// independentVerify is the oracle: does (sigB64, algo, certPEM) verify over payload?
func independentVerify(payload, sigB64, algo, certPEM string) bool {
	sig, err := base64.StdEncoding.DecodeString(sigB64)
	if err != nil {
		return false
	}
	blk, _ := pem.Decode([]byte(certPEM))
	if blk == nil {
		return false
	}
	cert, err := x509.ParseCertificate(blk.Bytes)
	if err != nil {
		return false
	}
	d := sha256.Sum256([]byte(payload))
	switch pk := cert.PublicKey.(type) {
	case *ecdsa.PublicKey:
		return algo == "ecdsaWithSha256" && ecdsa.VerifyASN1(pk, d[:], sig)
	case *rsa.PublicKey:
		return algo == "sha256WithRsaEncryption" && rsa.VerifyPKCS1v15(pk, crypto.SHA256, d[:], sig) == nil
	}
	return false
}

func randHex(c *fw.Case, n int) string {
	b := make([]byte, n)
	c.R.Read(b)
	return hex.EncodeToString(b)
}

type c15Record struct {
	addr, refID, link   string
	sig, algo, cert     string
	storeLink, storeSig bool
	label               string
	expectValid         bool
}

func runC15(c *fw.Case) {
	n, err := chain.NewNode(chain.GenesisSpec{Time: gen.Epoch})
	if err != nil {
		c.Inconclusive("node: %v", err)
		return
	}
	now := gen.Epoch.Add(time.Hour)
	if _, err := n.BeginBlock(now); err != nil {
		c.Inconclusive("beginblock: %v", err)
		return
	}
	creator := chain.NewKey("sig-creator").Bech()
	signer, err := newC15Signer(c.Index%4 == 3)
	if err != nil {
		c.Inconclusive("keygen: %v", err)
		return
	}
	other, err := newC15Signer(false)
	if err != nil {
		c.Inconclusive("keygen: %v", err)
		return
	}
	c.Describe(signer.pem[:80], c.Index)
	k := n.App.CfesignatureKeeper
	links := map[string]string{} // published key -> first value
	overwriteRefused := 0
	publish := func(key, value string) (accepted bool) {
		_, accepted, p := execSigOn(n, &sigtypes.MsgPublishReferencePayloadLink{Creator: creator, Key: key, Value: value})
		if p != nil {
			c.ViolateD("C20/handler-panic/publish", p.Stack, "PublishReferencePayloadLink panicked: %s", short(p.Value, 200))
			return false
		}
		if _, had := links[key]; had {
			if accepted {
				c.ViolateD("C15/link-overwritten", map[string]string{"key": key, "first": links[key], "new": value}, "a second publish under key %s (first value %q, new value %q) was accepted", short(key, 16), short(links[key], 20), short(value, 20))
			} else {
				overwriteRefused++
			}
		} else if accepted {
			links[key] = value
		}
		return accepted
	}
	checkLinks := func(where string) {
		ctx := n.Ctx()
		st := ctx.KVStore(n.App.GetKey(sigtypes.StoreKey))
		for key, val := range links {
			got := st.Get(append([]byte(sigtypes.PayloadLinkKey), []byte(key)...))
			if got == nil && val != "" {
				c.ViolateD("C15/link-lost", map[string]string{"key": key, "where": where}, "%s: payload link under key %s disappeared", where, short(key, 16))
			} else if string(got) != val {
				c.ViolateD("C15/link-changed", map[string]string{"key": key, "where": where, "want": val, "got": string(got)}, "%s: payload link under key %s changed from %q to %q", where, short(key, 16), short(val, 24), short(string(got), 24))
			}
		}
		c.Count("link_checks", int64(len(links)))
	}
	// --- records ---
	var recs []c15Record
	for i := 0; i < 3; i++ {
		addr := chain.NewKey(fmt.Sprintf("sig-target-%d-%d", c.Index, i)).Bech()
		base := func(label string) c15Record {
			refID := randHex(c, 32)
			link := c15LinkValue(refID, randHex(c, 32))
			r := c15Record{addr: addr, refID: refID, link: link, algo: signer.algo, cert: signer.pem, storeLink: true, storeSig: true, label: label, expectValid: true}
			r.sig = signer.sign(c15Payload(addr, refID, link))
			return r
		}
		recs = append(recs, base("valid"))
		if i > 0 && c.Tier != "thorough" && c.R.Intn(2) == 0 {
			continue
		}
		m := base("signature-bit-flipped")
		raw, _ := base64.StdEncoding.DecodeString(m.sig)
		raw[len(raw)/2] ^= 0x40
		m.sig = base64.StdEncoding.EncodeToString(raw)
		recs = append(recs, m)
		m = base("signed-over-other-address")
		m.sig = signer.sign(c15Payload(chain.NewKey("someone-else").Bech(), m.refID, m.link))
		recs = append(recs, m)
		m = base("signed-over-other-reference-id")
		m.sig = signer.sign(c15Payload(m.addr, randHex(c, 32), m.link))
		recs = append(recs, m)
		m = base("signed-over-other-payload-link")
		m.sig = signer.sign(c15Payload(m.addr, m.refID, c15LinkValue(m.refID, randHex(c, 32))))
		recs = append(recs, m)
		m = base("algorithm-of-other-family")
		if signer.rsaKey != nil {
			m.algo = "ecdsaWithSha256"
		} else {
			m.algo = "sha256WithRsaEncryption"
		}
		recs = append(recs, m)
		m = base("algorithm-unknown")
		m.algo = "md5WithRsa"
		recs = append(recs, m)
		m = base("dsa-algorithm")
		m.algo = "dsaWithSha256"
		recs = append(recs, m)
		// the algorithm field names what the signature was made with: a record that names
		// another hash, another scheme or a differently spelled name was not signed that way
		otherNames := []string{"sha384WithRsaEncryption", "sha512WithRsaEncryption", "sha1WithRsaEncryption", "ecdsaWithSha384", "ecdsaWithSha512", "dsaWithSha256",
			"SHA256WithRSAEncryption", "ECDSAWithSHA256", "sha256WithRsaEncryption ", "", "SHA256-RSA", "ECDSA-SHA256", "rsassaPss", "ed25519"}
		for k := 0; k < 2; k++ {
			m = base("algorithm-named-differently")
			m.algo = otherNames[c.R.Intn(len(otherNames))]
			recs = append(recs, m)
		}
		m = base("certificate-of-another-key")
		m.cert = other.pem
		recs = append(recs, m)
		m = base("garbage-pem")
		m.cert = "-----BEGIN CERTIFICATE-----\nAAAA\n-----END CERTIFICATE-----"
		recs = append(recs, m)
		m = base("pem-block-with-empty-body")
		m.cert = "-----BEGIN CERTIFICATE-----\n-----END CERTIFICATE-----"
		recs = append(recs, m)
		m = base("signature-not-base64")
		m.sig = "!!!not base64!!!"
		recs = append(recs, m)
		m = base("payload-link-never-published")
		m.storeLink = false
		recs = append(recs, m)
		m = base("link-never-published-signed-as-empty-link")
		m.storeLink = false
		m.sig = signer.sign(c15Payload(m.addr, m.refID, ""))
		recs = append(recs, m)
		m = base("signature-never-stored")
		m.storeSig = false
		recs = append(recs, m)
		// payload links are free-form strings: values that end with the separator of the
		// signed text, or are empty, must be taken literally
		m = base("link-ending-with-separator")
		m.link += ":"
		m.sig = signer.sign(c15Payload(m.addr, m.refID, m.link))
		recs = append(recs, m)
		m = base("signed-over-link-without-its-trailing-separator")
		m.sig = signer.sign(c15Payload(m.addr, m.refID, m.link))
		m.link += ":"
		recs = append(recs, m)
		m = base("signed-over-link-plus-separator")
		m.sig = signer.sign(c15Payload(m.addr, m.refID, m.link+"::"))
		recs = append(recs, m)
		m = base("empty-link")
		m.link = ""
		m.sig = signer.sign(c15Payload(m.addr, m.refID, m.link))
		recs = append(recs, m)
		m = base("separator-only-link-signed-as-empty")
		m.link = ":"
		m.sig = signer.sign(c15Payload(m.addr, m.refID, ""))
		recs = append(recs, m)
		m = base("link-with-inner-separators")
		m.link = "ipfs://" + m.link[:8] + ":" + m.link[8:16] + ": "
		m.sig = signer.sign(c15Payload(m.addr, m.refID, m.link))
		recs = append(recs, m)
		// ... and they may be long (a URL with a query string, a list of mirrors): every byte of
		// the stored link is covered by the signature
		longTail := func(n int) string {
			t := "https://storage.example/" + randHex(c, 16) + "?mirror="
			for len(t) < n {
				t += randHex(c, 16) + "/"
			}
			return t[:n]
		}
		m = base("long-link")
		m.link = longTail(150 + c.R.Intn(900))
		m.sig = signer.sign(c15Payload(m.addr, m.refID, m.link))
		recs = append(recs, m)
		m = base("long-link-signed-without-its-tail")
		m.link = longTail(150 + c.R.Intn(900))
		m.sig = signer.sign(c15Payload(m.addr, m.refID, m.link))
		m.link += randHex(c, 1+c.R.Intn(8))
		recs = append(recs, m)
		m = base("long-link-signed-with-another-last-byte")
		m.link = longTail(200 + c.R.Intn(3000))
		m.sig = signer.sign(c15Payload(m.addr, m.refID, m.link[:len(m.link)-1]+"#"))
		recs = append(recs, m)
		// a certificate field may hold a bundle (the signer's certificate followed by further
		// ones): a signature made with the key of an appended certificate is not a signature
		// under the certificate the record presents first
		m = base("signed-by-key-of-an-appended-certificate")
		m.cert = signer.pem + other.pem
		m.algo = other.algo
		m.sig = other.sign(c15Payload(m.addr, m.refID, m.link))
		recs = append(recs, m)
		// the address is part of the signed text as it was written: a record kept, signed and
		// asked for under the upper-case spelling of an address is a consistent record
		m = base("address-in-upper-case-spelling")
		m.addr = strings.ToUpper(m.addr)
		m.sig = signer.sign(c15Payload(m.addr, m.refID, m.link))
		recs = append(recs, m)
		// an RSA signature is a number as wide as the modulus: one in 256 starts with a zero
		// byte, which is part of the signature (every fourth RSA chain looks for one)
		if signer.rsaKey != nil && c.Index%16 == 3 {
			for try := 0; try < 800; try++ {
				m = base("rsa-signature-with-leading-zero-byte")
				link := c15LinkValue(m.refID, randHex(c, 32))
				sg := signer.sign(c15Payload(m.addr, m.refID, link))
				if raw, _ := base64.StdEncoding.DecodeString(sg); len(raw) > 0 && raw[0] == 0 {
					m.link, m.sig = link, sg
					recs = append(recs, m)
					c.Count("rsa_signatures_with_leading_zero_byte", 1)
					break
				}
			}
		}
		m = base("signed-by-other-key-with-matching-cert")
		m.cert = other.pem
		m.algo = other.algo
		m.sig = other.sign(c15Payload(m.addr, m.refID, m.link))
		recs = append(recs, m) // consistent record under another key: must be valid
	}
	validSeen := false
	for ri, r := range recs {
		ctx := sdk.WrapSDKContext(n.Ctx())
		if r.storeLink {
			lk, err := k.CreateReferencePayloadLink(ctx, &sigtypes.QueryCreateReferencePayloadLinkRequest{ReferenceId: r.refID, PayloadHash: "unused"})
			if err != nil {
				c.Violate("C15/create-link-query", "CreateReferencePayloadLink failed: %v", err)
				return
			}
			// the module derives the key from the reference id; the value is what the client publishes
			if !publish(lk.ReferenceKey, r.link) {
				c.Violate("C15/publish-rejected", "first publish under a fresh key was rejected")
				return
			}
		}
		sk, err := k.CreateStorageKey(ctx, &sigtypes.QueryCreateStorageKeyRequest{TargetAccAddress: r.addr, ReferenceId: r.refID})
		if err != nil {
			c.Violate("C15/storage-key-query", "CreateStorageKey failed: %v", err)
			return
		}
		if r.storeSig {
			js, _ := json.Marshal(map[string]string{"signature": r.sig, "algorithm": r.algo, "certificate": r.cert})
			_, accepted, p := execSigOn(n, &sigtypes.MsgStoreSignature{Creator: creator, StorageKey: sk.StorageKey, SignatureJSON: string(js)})
			if p != nil {
				c.ViolateD("C20/handler-panic/store", p.Stack, "StoreSignature panicked: %s", short(p.Value, 200))
				return
			}
			if !accepted {
				c.Violate("C15/store-rejected", "StoreSignature of a well-formed JSON was rejected (%s)", r.label)
				return
			}
		}
		checkLinks("after storing record " + r.label)
		// expected validity from the independent verifier over what is stored
		want := r.storeLink && r.storeSig && independentVerify(c15Payload(r.addr, r.refID, r.link), r.sig, r.algo, r.cert)
		if r.label == "valid" || r.label == "signed-by-other-key-with-matching-cert" || r.label == "link-ending-with-separator" || r.label == "empty-link" || r.label == "link-with-inner-separators" || r.label == "long-link" || r.label == "address-in-upper-case-spelling" || r.label == "rsa-signature-with-leading-zero-byte" {
			if !want {
				c.Inconclusive("harness produced an invalid 'valid' record")
				return
			}
		} else if want {
			c.Inconclusive("mutation %s still verifies independently", r.label)
			return
		}
		var resp *sigtypes.QueryVerifySignatureResponse
		var qerr error
		if p := safeCall("VerifySignature", func() {
			resp, qerr = k.VerifySignature(sdk.WrapSDKContext(n.Ctx()), &sigtypes.QueryVerifySignatureRequest{ReferenceId: r.refID, TargetAccAddress: r.addr})
		}); p != nil {
			c.ViolateD("C15/verification-panicked/"+r.label, p.Stack, "VerifySignature panicked on record %s: %s", r.label, short(p.Value, 200))
			c.KeepViolations("C15/")
			return
		}
		got := qerr == nil && resp != nil && resp.Valid == "valid"
		c.Count("verifications", 1)
		if got != want {
			c.ViolateD("C15/verification-unsound/"+r.label, map[string]string{"record": r.label, "algo": r.algo, "err": fmt.Sprint(qerr)}, "record %q: VerifySignature says valid=%v (err %v), independent verification says %v", r.label, got, qerr, want)
			return
		}
		if got {
			validSeen = true
			// returned fields must be the stored object
			st := n.Ctx().KVStore(n.App.GetKey(sigtypes.StoreKey))
			raw := st.Get(append([]byte(sigtypes.SignatureKey), []byte(sk.StorageKey)...))
			var stored sigtypes.Signature
			if raw == nil || stored.Unmarshal(raw) != nil {
				c.Violate("C15/stored-signature-missing", "record %q verified but no stored signature object could be read", r.label)
				return
			}
			if resp.Signature != stored.Signature || resp.Algorithm != stored.Algorithm || resp.Certificate != stored.Certificate || resp.Timestamp != stored.Timestamp ||
				stored.Signature != r.sig || stored.Algorithm != r.algo || stored.Certificate != r.cert {
				c.ViolateD("C15/response-fields", map[string]string{"resp_certificate": short(resp.Certificate, 80), "stored_certificate": short(stored.Certificate, 80), "resp_signature": short(resp.Signature, 80)},
					"record %q: VerifySignature returned fields that differ from the stored signature object (signature equal=%v algorithm equal=%v certificate equal=%v timestamp equal=%v)", r.label,
					resp.Signature == stored.Signature, resp.Algorithm == stored.Algorithm, resp.Certificate == stored.Certificate, resp.Timestamp == stored.Timestamp)
				return
			}
		}
		// a stored signature object may be replaced; every verification must be decided by what
		// is stored *now* (no remembered verdict): replace certificate or algorithm only, verify,
		// put the original back, verify again
		if got && r.storeSig && ri%2 == 0 {
			algo2, cert2, what := r.algo, other.pem, "certificate replaced"
			if c.R.Intn(2) == 0 {
				cert2, what = r.cert, "algorithm replaced"
				algo2 = "sha256WithRsaEncryption"
				if signer.rsaKey != nil {
					algo2 = "ecdsaWithSha256"
				}
			}
			for step, rec := range [][2]string{{algo2, cert2}, {r.algo, r.cert}} {
				js, _ := json.Marshal(map[string]string{"signature": r.sig, "algorithm": rec[0], "certificate": rec[1]})
				_, accepted, p := execSigOn(n, &sigtypes.MsgStoreSignature{Creator: creator, StorageKey: sk.StorageKey, SignatureJSON: string(js)})
				if p != nil || !accepted {
					break // replacing is refused on this tree: nothing to compare
				}
				want2 := independentVerify(c15Payload(r.addr, r.refID, r.link), r.sig, rec[0], rec[1])
				var resp2 *sigtypes.QueryVerifySignatureResponse
				var qerr2 error
				if p := safeCall("VerifySignature", func() {
					resp2, qerr2 = k.VerifySignature(sdk.WrapSDKContext(n.Ctx()), &sigtypes.QueryVerifySignatureRequest{ReferenceId: r.refID, TargetAccAddress: r.addr})
				}); p != nil {
					c.ViolateD("C15/verification-panicked/restored", p.Stack, "VerifySignature panicked after a stored signature was replaced: %s", short(p.Value, 200))
					break
				}
				got2 := qerr2 == nil && resp2 != nil && resp2.Valid == "valid"
				c.Count("verifications_after_replacement", 1)
				if got2 != want2 {
					c.ViolateD("C15/verification-unsound/after-replacement", map[string]string{"record": r.label, "what": what, "step": fmt.Sprint(step)},
						"record %q, %s (step %d): VerifySignature says valid=%v, independent verification of what is stored now says %v", r.label, what, step, got2, want2)
					break
				}
				if got2 && (resp2.Algorithm != rec[0] || resp2.Certificate != rec[1]) {
					c.Violate("C15/response-fields", "record %q after replacement: returned algorithm / certificate are not the stored ones", r.label)
				}
			}
		}
		// overwrite attempts on links already published (also across a commit)
		if ri%3 == 1 {
			for key := range links {
				publish(key, []string{"other-value", "", links[key] + "x"}[c.R.Intn(3)])
				// other spellings of an existing key are different keys: publishing under them
				// must not touch the existing link either
				variants := []string{strings.ToUpper(key), key + " ", " " + key, strings.ToUpper(key[:1]) + key[1:], key + "\x00", key[:len(key)-1]}
				publish(variants[c.R.Intn(len(variants))], "variant-value")
				// keys derived from an existing key the way the module derives keys from ids
				// (hex sha256) are separate entries: what is stored under them is no licence
				// to replace the original
				repl := links[key] + "-replacement"
				hk := sha256.Sum256([]byte(key))
				publish(hex.EncodeToString(hk[:]), repl)
				publish(key, repl)
				hv := sha256.Sum256([]byte(links[key]))
				publish(hex.EncodeToString(hv[:]), repl)
				publish(key, repl)
				break
			}
			checkLinks("after overwrite attempt")
		}
		if ri%5 == 2 {
			if _, _, err := n.EndBlock(); err != nil {
				c.Inconclusive("endblock: %v", err)
				return
			}
			now = now.Add(6 * time.Second)
			if _, err := n.BeginBlock(now); err != nil {
				c.Inconclusive("beginblock: %v", err)
				return
			}
			checkLinks("after commit")
		}
	}
	// the empty-value case: stored-but-empty must stay write-once too, across a commit
	emptyKey := randHex(c, 32)
	publish(emptyKey, "")
	publish(emptyKey, "x")
	n.EndBlock()
	n.BeginBlock(now.Add(12 * time.Second))
	publish(emptyKey, "y")
	checkLinks("after empty-link sequence")
	c.Count("overwrite_attempts_refused", int64(overwriteRefused))
	c.Count("records", int64(len(recs)))
	c.KeepViolations("C15/")
	c.Nontrivial(validSeen && overwriteRefused > 0)
	c.Sample(map[string]interface{}{"algorithm": signer.algo, "records": len(recs), "overwrite_attempts_refused": overwriteRefused})
}

func c15LinkValue(refID, payloadHash string) string {
	h := sha256.Sum256([]byte(refID + ":" + payloadHash))
	return hex.EncodeToString(h[:])
}
