package mon

import (
	"fmt"
	"math/big"
	"strings"
	"time"

	"verifharness/chain"
	"verifharness/fw"
	"verifharness/gen"
	"verifharness/model"

	mintv3 "github.com/chain4energy/c4e-chain/x/cfeminter/migrations/v3"
	minttypes "github.com/chain4energy/c4e-chain/x/cfeminter/types"
	sdk "github.com/cosmos/cosmos-sdk/types"
	authtypes "github.com/cosmos/cosmos-sdk/x/auth/types"
)

var eps6 = new(big.Rat).SetFrac64(1, 1_000_000)

func init() {
	fw.Register(&fw.Monitor{
		ID:    "C02",
		Level: "exploration",
		Rule: "case = one generated valid emission configuration (1-6 periods of NoMinting/Linear/ExponentialStep, amounts log-uniform to 10^36) run under 4-6 block-time partitions " +
			"(boundary-hugging +-1ns/1ms/1s, random, single jump, one block per boundary, 1ns bursts) on the real app BeginBlock; after every block cumulative minted (bank supply delta) is compared " +
			"with floor of the exact big.Rat schedule; partitions are compared at the common horizon. Non-trivial: >=1 period boundary and >=1 step boundary crossed, >=1 block jumping >=2 boundaries, total minted>0, >=2 partitions. Distinct by configuration hash." +
			" Probes (every 16th case each): long horizons (periods of 250-600 years, blocks up to 700 years after the start, expectations from Unix seconds and nanoseconds in math/big), the v2->v3 parameter migration in the middle of a schedule, an accepted governance update of the start time before the first block / another schedule run on a discarded branch of the state, a restart from an exported genesis in the middle of a schedule; an eighth of the cases park coins on the minter's own module account.",
		Assumptions: []string{
			"reference schedule (model/schedule.go) is the documented one: linear on millisecond-truncated time, exponential per step with in-step linear interpolation on nanoseconds",
			"18-decimal rounding inside an exponential period may move a floor only when the exact value is within 1e-6 of an integer (counted as ambiguous, either neighbour accepted)",
			"generator keeps periods/steps >= 1s, multiplier in [0,1], <= ~3000 steps per bounded period",
		},
		Cases:         func(t string) int { return tierN(t, 480, 12000) },
		MinNontrivial: func(t string) int { return tierN(t, 45, 800) },
		Run:           runC02,
	})
}

type c02Block struct {
	T      string `json:"t"`
	Minted string `json:"minted"`
	Cum    string `json:"cum"`
}

func runC02(c *fw.Case) {
	if c.Index%16 == 11 {
		longHorizonProbe(c, "C02")
		return
	}
	if c.Index%16 == 13 {
		c02MigrationProbe(c)
		return
	}
	if c.Index%16 == 9 {
		c02UpdateProbe(c)
		return
	}
	if c.Index%16 == 5 {
		c02RestartProbe(c)
		return
	}
	mc := gen.Minters(c.R, gen.MintDenom(c.R), 36)
	horizon := mc.Horizon(c.R)
	bounds := mc.Schedule.Boundaries(horizon, 40)
	c.Describe(strings.Join(mc.Desc, ""), mc.Describe())
	nPart := 4 + c.R.Intn(3)
	maxBlocks := 60
	var finals []*big.Int
	var sample []c02Block
	crossedPeriod, crossedStep, multiJump := false, false, false
	for pi := 0; pi < nPart; pi++ {
		mode := pi
		if pi >= 5 {
			mode = c.R.Intn(5)
		}
		times := gen.Partition(c.R, gen.Epoch, horizon, bounds, mode, maxBlocks)
		cum, cp, cs, mj, blocks := c02RunPartition(c, mc, times, pi)
		if c.NViol() > 0 {
			return
		}
		if cum == nil {
			return
		}
		finals = append(finals, cum)
		crossedPeriod = crossedPeriod || cp
		crossedStep = crossedStep || cs
		multiJump = multiJump || mj
		if pi == 0 {
			sample = blocks
		}
	}
	for i := 1; i < len(finals); i++ {
		if finals[i].Cmp(finals[0]) != 0 {
			c.Violate("C02/path-dependence", "cumulative minted at the common horizon differs between partitions: %s vs %s (config %s)", finals[0], finals[i], strings.Join(mc.Desc, ""))
			return
		}
	}
	nt := crossedPeriod && crossedStep && multiJump && finals[0].Sign() > 0 && len(finals) >= 2
	c.Nontrivial(nt)
	if len(sample) > 6 {
		sample = sample[:6]
	}
	c.Sample(map[string]interface{}{"config": strings.Join(mc.Desc, ""), "params": mc.Describe(), "partitions": nPart, "final_cum": finals[0].String(), "first_partition_blocks": sample})
}

// c02BeforeBlock, when set by a probe, runs before block i of a partition (on the
// committed state of the previous block); returning false ends the case.
var c02BeforeBlock func(c *fw.Case, n *chain.Node, i int) (*chain.Node, bool)

// c02GenesisParams, when set by a probe, replaces the parameters the chain starts with (the
// schedule the blocks are compared with stays the one passed to c02RunPartition).
var c02GenesisParams *minttypes.Params

func c02RunPartition(c *fw.Case, mc gen.MinterConfig, times []time.Time, pi int) (cum *big.Int, crossedPeriod, crossedStep, multiJump bool, blocks []c02Block) {
	genesisParams := mc.Params
	if c02GenesisParams != nil {
		genesisParams = *c02GenesisParams
	}
	spec := chain.GenesisSpec{Time: gen.Epoch, Minter: minterGenesis(genesisParams, gen.Epoch)}
	if c.Index%8 == 6 {
		// coins resting on the minter's own module account are not part of the emission
		spec.Accounts = []chain.GenAccount{{Account: authtypes.NewEmptyModuleAccount(minttypes.ModuleName, authtypes.Minter, authtypes.Burner, authtypes.Staking),
			Coins: sdk.NewCoins(sdk.NewCoin(mc.Params.MintDenom, sdk.NewIntFromBigInt(new(big.Int).Add(gen.BigAmount(c.R, 24), big.NewInt(1)))))}}
	}
	n, err := chain.NewNode(spec)
	if err != nil {
		if p := asPanic(err); p != nil {
			c.Violate("C02/initchain-panic", "InitChain panicked for a valid configuration: %s", short(p.Value, 300))
		} else {
			c.Inconclusive("node: %v", err)
		}
		return nil, false, false, false, nil
	}
	cum = new(big.Int)
	denom := mc.Params.MintDenom
	prev := gen.Epoch
	bounds := mc.Schedule.Boundaries(times[len(times)-1], 100000)
	periodEnds := map[int64]bool{}
	for _, p := range mc.Schedule.Periods {
		if p.End != nil {
			periodEnds[p.End.UnixNano()] = true
		}
	}
	for bi, t := range times {
		if c02BeforeBlock != nil {
			repl, ok := c02BeforeBlock(c, n, bi)
			if !ok {
				return nil, false, false, false, nil
			}
			if repl != nil {
				n = repl // the chain continues on another application (a restart from an export)
			}
		}
		before := n.App.BankKeeper.GetSupply(n.Ctx(), denom).Amount.BigInt()
		res, err := n.BeginBlock(t)
		if err != nil {
			if p := asPanic(err); p != nil {
				c.ViolateD("C02/beginblock-panic", p.Stack, "BeginBlock panicked at %s: %s", fmtTime(t), short(p.Value, 300))
			} else {
				c.Inconclusive("beginblock: %v", err)
			}
			return nil, false, false, false, nil
		}
		after := n.App.BankKeeper.GetSupply(n.Ctx(), denom).Amount.BigInt()
		delta := new(big.Int).Sub(after, before)
		if delta.Sign() < 0 {
			c.Violate("C02/negative-mint", "block at %s minted %s", fmtTime(t), delta)
			return
		}
		cum.Add(cum, delta)
		c.Count("blocks", 1)
		// mint event
		evs := typedEvents(res.Events, "cfeminter.Mint")
		if len(evs) != 1 {
			c.Violate("C02/mint-event-count", "expected one Mint event, got %d", len(evs))
			return
		}
		if a, ok := bigStr(evs[0].Attrs["amount"]); !ok || a.Cmp(delta) != 0 {
			c.Violate("C02/mint-event-amount", "Mint event amount %s != supply delta %s at %s", evs[0].Attrs["amount"], delta, fmtTime(t))
			return
		}
		// schedule
		exact := mc.Schedule.Cum(t)
		want := model.Floor(exact)
		if cum.Cmp(want) != 0 {
			d := new(big.Int).Sub(cum, want)
			if model.NearInteger(exact, eps6) && d.CmpAbs(big.NewInt(1)) <= 0 && hasExp(mc) {
				c.Count("ambiguous", 1)
			} else {
				c.ViolateD("C02/schedule-mismatch", map[string]string{"params": mc.Describe(), "t": fmtTime(t), "partition": strings.Join(timesStr(times), ",")},
					"cumulative minted %s != floor(schedule)=%s at %s (partition %d, config %s)", cum, want, fmtTime(t), pi, strings.Join(mc.Desc, ""))
				return
			}
		}
		// boundary accounting
		crossed := 0
		for _, b := range bounds {
			if b.After(prev) && !b.After(t) {
				crossed++
				if periodEnds[b.UnixNano()] {
					crossedPeriod = true
				} else {
					crossedStep = true
				}
			}
		}
		if crossed >= 2 {
			multiJump = true
		}
		c.Count("boundaries_crossed", int64(crossed))
		prev = t
		if len(blocks) < 8 {
			blocks = append(blocks, c02Block{T: fmtTime(t), Minted: delta.String(), Cum: cum.String()})
		}
		// state identities
		ctx := n.Ctx()
		st := n.App.CfeminterKeeper.GetMinterState(ctx)
		hist := n.App.CfeminterKeeper.GetAllMinterStateHistory(ctx)
		sum := new(big.Int).Set(st.AmountMinted.BigInt())
		for _, h := range hist {
			sum.Add(sum, h.AmountMinted.BigInt())
			idx := int(h.SequenceId) - int(mc.FirstID)
			if idx >= 0 && idx < len(mc.Schedule.Periods) && mc.Schedule.Periods[idx].Kind == model.Linear {
				if h.AmountMinted.BigInt().Cmp(mc.Schedule.Periods[idx].Amount) != 0 {
					c.Violate("C02/linear-period-total", "finished linear period %d recorded %s, configured %s", h.SequenceId, h.AmountMinted, mc.Schedule.Periods[idx].Amount)
					return
				}
				c.Count("linear_periods_finished", 1)
			}
		}
		// a start in the future means nothing can have been minted
		if sum.Cmp(cum) != 0 {
			c.Violate("C02/state-vs-bank", "sum of recorded amount_minted %s != bank-observed cumulative mint %s at %s", sum, cum, fmtTime(t))
			return
		}
		if _, _, err := n.EndBlock(); err != nil {
			if p := asPanic(err); p != nil {
				c.Violate("C02/endblock-panic", "EndBlock panicked: %s", short(p.Value, 300))
			} else {
				c.Inconclusive("endblock: %v", err)
			}
			return nil, false, false, false, nil
		}
	}
	return
}

func hasExp(mc gen.MinterConfig) bool {
	for _, p := range mc.Schedule.Periods {
		if p.Kind == model.ExponentialStep {
			return true
		}
	}
	return false
}

func timesStr(ts []time.Time) []string {
	var out []string
	for _, t := range ts {
		out = append(out, fmtTime(t))
	}
	return out
}

var _ = minttypes.ModuleName

// c02MigrationProbe: the emission must keep following the schedule across the v2 -> v3
// parameter migration of the minter (part of the v1.2.0 upgrade). A chain runs a generated
// configuration - period ids starting at 1..8, stored in any order - for some blocks; then
// its parameters are put back into the x/params subspace in the previous format (the minter
// state stays where it is), the repository's MigrateParams runs, and the remaining blocks
// of the partition are compared with the same schedule.
func c02MigrationProbe(c *fw.Case) {
	mc := gen.Minters(c.R, gen.MintDenom(c.R), 36)
	if c.R.Intn(2) == 0 && mc.FirstID == 1 {
		by := uint32(1 + c.R.Intn(7))
		for _, m := range mc.Sorted {
			m.SequenceId += by
		}
		mc.FirstID += by
	}
	horizon := mc.Horizon(c.R)
	bounds := mc.Schedule.Boundaries(horizon, 40)
	c.Describe("migration", strings.Join(mc.Desc, ""), mc.Describe(), mc.FirstID)
	times := gen.Partition(c.R, gen.Epoch, horizon, bounds, c.R.Intn(5), 40)
	if len(times) < 3 {
		return
	}
	at := 1 + c.R.Intn(len(times)-1)
	migrated := false
	c02BeforeBlock = func(c *fw.Case, n *chain.Node, i int) (*chain.Node, bool) {
		if i != at {
			return nil, true
		}
		ctx := n.Ctx()
		app := n.App
		stored := app.CfeminterKeeper.GetParams(ctx)
		legacy := minttypes.MinterConfig{StartTime: stored.StartTime}
		for _, m := range stored.Minters {
			lm := &minttypes.LegacyMinter{SequenceId: m.SequenceId, EndTime: m.EndTime}
			switch cfg := m.Config.GetCachedValue().(type) {
			case *minttypes.LinearMinting:
				lm.Type, lm.LinearMinting = minttypes.LinearMintingType, cfg
			case *minttypes.ExponentialStepMinting:
				lm.Type, lm.ExponentialStepMinting = minttypes.ExponentialStepMintingType, cfg
			default:
				lm.Type = minttypes.NoMintingType
			}
			legacy.Minters = append(legacy.Minters, lm)
		}
		var err error
		func() {
			defer func() {
				if rec := recover(); rec != nil {
					err = fmt.Errorf("panic: %v", rec)
				}
			}()
			ms := app.GetSubspace(minttypes.ModuleName)
			if !ms.HasKeyTable() {
				ms = ms.WithKeyTable(minttypes.ParamKeyTable())
			}
			ms.Set(ctx, minttypes.KeyMintDenom, stored.MintDenom)
			ms.Set(ctx, minttypes.KeyMinterConfig, legacy)
			ctx.KVStore(app.GetKey(minttypes.StoreKey)).Delete(minttypes.ParamsKey)
			err = mintv3.MigrateParams(ctx, app.GetKey(minttypes.StoreKey), ms, app.AppCodec())
		}()
		if err != nil {
			c.ViolateD("C02/params-migration-failed", map[string]string{"params": mc.Describe()}, "the v2 -> v3 parameter migration of a valid emission configuration failed before block %d: %v", i, err)
			return nil, false
		}
		migrated = true
		c.Count("params_migrations_mid_schedule", 1)
		return nil, true
	}
	defer func() { c02BeforeBlock = nil }()
	cum, _, _, _, _ := c02RunPartition(c, mc, times, 0)
	c.Nontrivial(migrated && cum != nil && cum.Sign() > 0 && c.NViol() == 0)
}

// c02UpdateProbe: a schedule put in force by governance before anything was minted is the
// schedule the emission follows - start time included. The chain starts with the generated
// configuration shifted to an earlier start; before the first block an accepted
// MsgUpdateMintersParams (every second time MsgUpdateParams) installs the generated one.
func c02UpdateProbe(c *fw.Case) {
	if (c.Index/16)%2 == 1 {
		c02DiscardedUpdateProbe(c)
		return
	}
	mc := gen.Minters(c.R, "uc4e", 36)
	horizon := mc.Horizon(c.R)
	bounds := mc.Schedule.Boundaries(horizon, 40)
	times := gen.Partition(c.R, gen.Epoch, horizon, bounds, c.R.Intn(5), 40)
	if mc.Params.StartTime.Before(gen.Epoch.Add(-100 * 365 * 24 * time.Hour)) {
		return // the generator's "no start time" configurations have nothing to move
	}
	early := mc.Params
	early.StartTime = mc.Params.StartTime.Add(-time.Duration(1+c.R.Intn(5*24*3600)) * time.Second)
	c.Describe("update-before-start", strings.Join(mc.Desc, ""), mc.Describe(), early.StartTime.UnixNano())
	if early.Validate() != nil || len(times) < 2 {
		return
	}
	c02GenesisParams = &early
	accepted := false
	c02BeforeBlock = func(c *fw.Case, n *chain.Node, i int) (*chain.Node, bool) {
		if i != 0 {
			return nil, true
		}
		var msg sdk.Msg = &minttypes.MsgUpdateMintersParams{Authority: govAuthority(), StartTime: mc.Params.StartTime, Minters: mc.Params.Minters}
		if c.R.Intn(2) == 0 {
			msg = &minttypes.MsgUpdateParams{Authority: govAuthority(), MintDenom: mc.Params.MintDenom, StartTime: mc.Params.StartTime, Minters: mc.Params.Minters}
		}
		if _, _, err := n.GovExec(msg); err != nil {
			if p := asPanic(err); p != nil {
				c.ViolateD("C10/update-panic", p.Stack, "minter update panicked: %s", short(p.Value, 200))
				return nil, false
			}
			c.Count("update_probe_updates_refused", 1)
			return nil, false
		}
		accepted = true
		c.Count("update_probe_updates_accepted", 1)
		return nil, true
	}
	defer func() { c02BeforeBlock, c02GenesisParams = nil, nil }()
	cum, _, _, _, _ := c02RunPartition(c, mc, times, 0)
	c.Nontrivial(accepted && cum != nil && cum.Sign() > 0 && c.NViol() == 0)
}

// c02DiscardedUpdateProbe: an update that ran on a branch of the state which was then thrown
// away - x/gov does that with a proposal whose later message fails, every node does it when it
// simulates a transaction - never happened. In the middle of a partition another valid
// schedule is put through the routed handler on a branched context that is discarded; the
// emission keeps following the stored schedule.
func c02DiscardedUpdateProbe(c *fw.Case) {
	mc := gen.Minters(c.R, "uc4e", 36)
	other := gen.Minters(c.R, "uc4e", 36)
	horizon := mc.Horizon(c.R)
	bounds := mc.Schedule.Boundaries(horizon, 40)
	times := gen.Partition(c.R, gen.Epoch, horizon, bounds, c.R.Intn(5), 40)
	c.Describe("discarded-update", strings.Join(mc.Desc, ""), mc.Describe(), other.Describe())
	if len(times) < 3 {
		return
	}
	at := c.R.Intn(len(times) - 1)
	ran := false
	c02BeforeBlock = func(c *fw.Case, n *chain.Node, i int) (*chain.Node, bool) {
		if i != at {
			return nil, true
		}
		// periods renumbered so that the current period exists in the other schedule too
		cur := n.App.CfeminterKeeper.GetMinterState(n.Ctx()).SequenceId
		minters := other.Params.Minters
		if len(other.Sorted) > 0 && other.FirstID != cur {
			for _, m := range other.Sorted {
				m.SequenceId = m.SequenceId - other.FirstID + cur
			}
		}
		msgs := []sdk.Msg{&minttypes.MsgUpdateMintersParams{Authority: govAuthority(), StartTime: other.Params.StartTime, Minters: minters},
			&minttypes.MsgUpdateParams{Authority: govAuthority(), MintDenom: "uc4e", StartTime: other.Params.StartTime, Minters: minters}}
		msg := msgs[c.R.Intn(2)]
		handler := n.App.MsgServiceRouter().Handler(msg)
		if handler == nil {
			return nil, true
		}
		cctx, _ := n.Ctx().CacheContext()
		var herr error
		if p := safeCall("handler", func() { _, herr = handler(cctx, msg) }); p != nil {
			c.ViolateD("C10/update-panic", p.Stack, "minter update panicked: %s", short(p.Value, 200))
			return nil, false
		}
		ran = true
		if herr == nil {
			c.Count("discarded_updates_that_had_been_accepted", 1)
		} else {
			c.Count("discarded_updates_that_had_been_refused", 1)
		}
		return nil, true
	}
	defer func() { c02BeforeBlock = nil }()
	cum, _, _, _, _ := c02RunPartition(c, mc, times, 0)
	c.Nontrivial(ran && cum != nil && cum.Sign() > 0 && c.NViol() == 0)
}

// c02RestartProbe: a restart from an exported genesis (the way a chain is carried over a
// hard fork) in the middle of a schedule does not bend it. At one block of the partition the
// application state is exported and a fresh application is started from it; the remaining
// blocks run on that application and are compared with the same schedule.
func c02RestartProbe(c *fw.Case) {
	mc := gen.Minters(c.R, gen.MintDenom(c.R), 36)
	horizon := mc.Horizon(c.R)
	bounds := mc.Schedule.Boundaries(horizon, 40)
	times := gen.Partition(c.R, gen.Epoch, horizon, bounds, c.R.Intn(5), 40)
	c.Describe("restart", strings.Join(mc.Desc, ""), mc.Describe())
	if len(times) < 3 {
		return
	}
	at := 1 + c.R.Intn(len(times)-1)
	restarted := false
	c02BeforeBlock = func(c *fw.Case, n *chain.Node, i int) (*chain.Node, bool) {
		if i != at {
			return nil, true
		}
		exp, height, err := n.Export()
		if err != nil {
			if p := asPanic(err); p != nil {
				c.ViolateD("C12/export-panic/"+panicKey(p.Stack), p.Stack, "export panicked: %s", short(p.Value, 200))
			}
			return nil, false
		}
		fresh, err := chain.NewNodeFromGenesis(exp, times[i-1], height)
		if err != nil {
			if p := asPanic(err); p != nil {
				c.ViolateD("C12/import-panic/"+panicKey(p.Stack), map[string]string{"stack": short(p.Stack, 3000), "panic": p.Value}, "InitChain from the exported genesis panicked: %s", short(p.Value, 300))
			} else {
				c.Count("restart_probe_imports_refused", 1)
			}
			return nil, false
		}
		restarted = true
		c.Count("restarts_from_exported_genesis_mid_schedule", 1)
		return fresh, true
	}
	defer func() { c02BeforeBlock = nil }()
	cum, _, _, _, _ := c02RunPartition(c, mc, times, 0)
	c.Nontrivial(restarted && cum != nil && cum.Sign() > 0 && c.NViol() == 0)
}
