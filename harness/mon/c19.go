package mon

import (
	"math/big"
	"time"

	"verifharness/chain"
	"verifharness/fw"
	"verifharness/gen"
	"verifharness/model"

	appparams "github.com/chain4energy/c4e-chain/app/params"
	minttypes "github.com/chain4energy/c4e-chain/x/cfeminter/types"
	codectypes "github.com/cosmos/cosmos-sdk/codec/types"
	sdk "github.com/cosmos/cosmos-sdk/types"
	authtypes "github.com/cosmos/cosmos-sdk/x/auth/types"
)

const yearNs = int64(365 * 24 * time.Hour)

func init() {
	fw.Register(&fw.Monitor{
		ID:    "C19",
		Level: "exploration",
		Rule: "case = generated valid emission configuration x supply (1..10^30 extra coins) x probe instant t (ms-aligned, inside a step of a chosen period; first and later steps, near period ends, before start) x ms-aligned dt inside the same step. " +
			"Real app: BeginBlock(t), Inflation query + bank supply, BeginBlock(t+dt); oracle |minted - I*S*dt/year| <= rigorous slack (big.Rat), zero-inflation checks before start / NoMinting / ended period (incl. a current period whose end an accepted governance update moved into the past). " +
			"Non-trivial: minted>10 in the probe interval, or a zero-inflation state actually reached. Distinct by (configuration, t, dt, supply)." +
			" Every 16th case is the long-horizon probe (see C02): reported inflation vs the emission of a following short interval centuries after the start; a sixth of the cases park part of the supply on the minter's own module account.",
		Assumptions: []string{
			"slack = 1 + X*(2ms/period_len) + (S+1)*dt/year*2e-18 + 1e-9*dt/step where X=I*S*dt/year (difference of two floors; ms truncation of linear period ends; 18-decimal truncation of I and of chained multiplier products)",
			"year = 365 days as in the code's annualisation constant",
		},
		Cases:         func(t string) int { return tierN(t, 4500, 150000) },
		MinNontrivial: func(t string) int { return tierN(t, 300, 10000) },
		Run:           runC19,
	})
}

func decRat(d sdk.Dec) *big.Rat {
	return new(big.Rat).SetFrac(d.BigInt(), new(big.Int).Exp(big.NewInt(10), big.NewInt(18), nil))
}

func alignMs(t time.Time) time.Time { return t.Truncate(time.Millisecond) }

func runC19(c *fw.Case) {
	if c.Index%16 == 11 {
		longHorizonProbe(c, "C19")
		return
	}
	mc := gen.Minters(c.R, gen.MintDenom(c.R), 30)
	mintDenom := mc.Params.MintDenom
	// every tenth case: linear periods of astronomic size (up to 10^62). Minting still works for
	// them, the annualised rate no longer fits the decimal type: the minter may then refuse to
	// report an inflation, but it must not report a wrong one
	huge := c.Index%10 == 9
	if huge {
		f := new(big.Int).Exp(big.NewInt(10), big.NewInt(32), nil)
		for i, m := range mc.Sorted {
			if lm, ok := m.Config.GetCachedValue().(*minttypes.LinearMinting); ok {
				cp := *lm
				cp.Amount = sdk.NewIntFromBigInt(new(big.Int).Mul(lm.Amount.BigInt(), f))
				m.Config, _ = codectypes.NewAnyWithValue(&cp)
				mc.Schedule.Periods[i].Amount = new(big.Int).Mul(mc.Schedule.Periods[i].Amount, f)
			}
		}
	}
	// pick a period to probe
	pi := c.R.Intn(len(mc.Schedule.Periods))
	pStart := mc.Schedule.Start
	for i := 0; i < pi; i++ {
		pStart = *mc.Schedule.Periods[i].End
	}
	p := mc.Schedule.Periods[pi]
	var pEnd time.Time
	if p.End != nil {
		pEnd = *p.End
	} else {
		ext := gen.Dur(c.R)
		if p.Kind == model.ExponentialStep {
			ext = p.Step * time.Duration(1+c.R.Intn(5))
			if ext <= 0 || ext > 50*365*24*time.Hour {
				ext = p.Step
			}
		}
		pEnd = pStart.Add(ext)
	}
	if !pEnd.After(gen.Epoch.Add(2 * time.Second)) {
		// the whole period lies before genesis: probe the last period instead
		pi = len(mc.Schedule.Periods) - 1
		p = mc.Schedule.Periods[pi]
		pStart = mc.Schedule.Start
		for i := 0; i < pi; i++ {
			pStart = *mc.Schedule.Periods[i].End
		}
		ext := gen.Dur(c.R)
		if p.Kind == model.ExponentialStep {
			ext = p.Step
		}
		base := pStart
		if base.Before(gen.Epoch) {
			base = gen.Epoch
		}
		pEnd = base.Add(ext)
	}
	// window [lo, hi) inside one step of the period and after genesis
	lo, hi := pStart, pEnd
	stepLen := pEnd.Sub(pStart)
	if p.Kind == model.ExponentialStep {
		nSteps := int64(pEnd.Sub(pStart)) / int64(p.Step)
		k := int64(0)
		if nSteps > 0 {
			switch c.R.Intn(3) {
			case 0:
				k = 0
			case 1:
				k = nSteps
			default:
				k = c.R.Int63n(nSteps + 1)
			}
		}
		lo = pStart.Add(time.Duration(k) * p.Step)
		hi = lo.Add(p.Step)
		if hi.After(pEnd) {
			hi = pEnd
		}
		stepLen = p.Step
	}
	if lo.Before(gen.Epoch.Add(time.Millisecond)) {
		lo = gen.Epoch.Add(time.Millisecond)
	}
	lo = alignMs(lo).Add(time.Millisecond)
	hiA := alignMs(hi)
	if !hiA.Before(hi) {
		hiA = hiA.Add(-time.Millisecond)
	}
	mode := c.R.Intn(10)
	var t, t2 time.Time
	zeroProbe := ""
	switch {
	case mode == 0 && mc.Schedule.Start.After(gen.Epoch.Add(3*time.Millisecond)):
		// before start: must be zero
		span := mc.Schedule.Start.Sub(gen.Epoch) - 2*time.Millisecond
		t = alignMs(gen.Epoch.Add(time.Millisecond + time.Duration(c.R.Int63n(int64(span)))))
		t2 = t.Add(time.Millisecond)
		if !t2.Before(mc.Schedule.Start) {
			t2 = time.Time{}
		}
		zeroProbe = "before-start"
	case mode == 1 && mintDenom != "uc4e" && mc.Schedule.Start.After(gen.Epoch.Add(time.Millisecond)):
		// the first block of the emission, exactly at the start time, on a denomination
		// that does not exist yet: nothing is minted, the supply is zero and the rate of
		// the first period (whatever its kind) must be reported as 0, not fail
		t = mc.Schedule.Start
		zeroProbe = "at-start-zero-supply"
	default:
		if !lo.Before(hiA) {
			c.Describe("degenerate", mc.Describe())
			return
		}
		span := hiA.Sub(lo)
		off := time.Duration(c.R.Int63n(int64(span)/int64(time.Millisecond)+1)) * time.Millisecond
		switch c.R.Intn(4) {
		case 0:
			off = 0
		case 1:
			off = span - time.Millisecond
			if off < 0 {
				off = 0
			}
		}
		t = lo.Add(off)
		rem := hiA.Sub(t)
		if rem < time.Millisecond {
			c.Describe("degenerate2", mc.Describe())
			return
		}
		dt := time.Duration(1+c.R.Int63n(int64(rem)/int64(time.Millisecond))) * time.Millisecond
		if c.R.Intn(3) == 0 && dt > 10*time.Second {
			dt = time.Duration(1+c.R.Intn(10000)) * time.Millisecond
		}
		t2 = t.Add(dt)
	}
	extra := gen.BigAmount(c.R, 30)
	if zeroProbe == "at-start-zero-supply" {
		extra = big.NewInt(0)
	}
	c.Describe(mc.Describe(), fmtTime(t), fmtTime(t2), extra.String())

	whale := chain.NewKey("whale")
	spec := chain.GenesisSpec{Time: gen.Epoch, Minter: minterGenesis(mc.Params, gen.Epoch)}
	if extra.Sign() > 0 {
		spec.Accounts = []chain.GenAccount{{Account: authtypes.NewBaseAccount(whale.Addr, nil, 0, 0), Coins: sdk.NewCoins(sdk.NewCoin(mintDenom, sdk.NewIntFromBigInt(extra)))}}
	}
	if extra.Sign() > 0 && c.R.Intn(6) == 0 {
		// part of the supply rests on the minter's own module account (a genesis balance, or what
		// a distributor configured to pay that module account has sent there): coins the
		// emission neither counts nor touches
		parked := new(big.Int).Add(new(big.Int).Rand(c.R, extra), big.NewInt(1))
		spec.Accounts = append(spec.Accounts, chain.GenAccount{Account: authtypes.NewEmptyModuleAccount(minttypes.ModuleName, authtypes.Minter, authtypes.Burner, authtypes.Staking),
			Coins: sdk.NewCoins(sdk.NewCoin(mintDenom, sdk.NewIntFromBigInt(parked)))})
		c.Count("cases_with_coins_parked_on_the_minter_account", 1)
	}
	n, err := chain.NewNode(spec)
	if err != nil {
		c.Inconclusive("node: %v", err)
		return
	}
	// optional intermediate block
	if c.R.Intn(3) == 0 && t.Sub(gen.Epoch) > 2*time.Millisecond {
		mid := gen.Epoch.Add(time.Duration(1 + c.R.Int63n(int64(t.Sub(gen.Epoch))-1)))
		if _, err := n.BeginBlock(mid); err != nil {
			c19Panic(c, err, mid)
			return
		}
		if _, _, err := n.EndBlock(); err != nil {
			c19Panic(c, err, mid)
			return
		}
	}
	bres, err := n.BeginBlock(t)
	if err != nil {
		c19Panic(c, err, t)
		return
	}
	ctx := n.Ctx()
	resp, err := n.App.CfeminterKeeper.Inflation(sdk.WrapSDKContext(ctx), &minttypes.QueryInflationRequest{})
	if err != nil {
		if huge {
			c.Count("inflation_refused_for_astronomic_amounts", 1)
			return
		}
		c.Violate("C19/inflation-query-error", "Inflation query failed at %s: %v", fmtTime(t), err)
		return
	}
	// the minter reports its inflation in two places: the query and the Mint event of the
	// block. Both describe the state after this block's mint (the event is only compared
	// when nothing was burned in the block, a burn changes the supply after the event)
	if led, lerr := chain.Ledger(bres.Events); lerr == nil && len(led.Burned) == 0 {
		if evs := typedEvents(bres.Events, "cfeminter.Mint"); len(evs) == 1 {
			c.Count("mint_event_inflation_compared", 1)
			if got := chain.Unq(evs[0].Attrs["inflation"]); got != resp.Inflation.String() {
				c.ViolateD("C19/event-inflation-vs-query", map[string]string{"config": mc.Describe(), "t": fmtTime(t), "event": got, "query": resp.Inflation.String()},
					"the Mint event of the block at %s reports inflation %s, the Inflation query in the same block %s", fmtTime(t), got, resp.Inflation)
			}
		}
	}
	I := decRat(resp.Inflation)
	S := n.App.BankKeeper.GetSupply(ctx, mintDenom).Amount.BigInt()
	st := n.App.CfeminterKeeper.GetMinterState(ctx)
	c.Count("probes", 1)

	// zero-inflation expectations at reachable states
	curIdx := int(st.SequenceId) - int(mc.FirstID)
	if zeroProbe == "before-start" {
		c.Count("zero_before_start", 1)
		if I.Sign() != 0 {
			c.Violate("C19/nonzero-before-start", "inflation %s before the start time (t=%s start=%s)", resp.Inflation, fmtTime(t), fmtTime(mc.Schedule.Start))
			return
		}
		c.Nontrivial(true)
	}
	if zeroProbe == "at-start-zero-supply" && S.Sign() == 0 {
		c.Count("zero_supply_at_start_"+mc.Desc[0], 1)
		if I.Sign() != 0 {
			c.Violate("C19/nonzero-without-supply", "inflation %s reported while the supply of %s is zero", resp.Inflation, mintDenom)
			return
		}
		c.Nontrivial(true)
	}
	if curIdx >= 0 && curIdx < len(mc.Schedule.Periods) && mc.Schedule.Periods[curIdx].Kind == model.NoMinting && !t.Before(mc.Schedule.Start) {
		c.Count("zero_nominting", 1)
		if I.Sign() != 0 {
			c.Violate("C19/nonzero-nominting", "inflation %s in a no-minting period", resp.Inflation)
			return
		}
		c.Nontrivial(true)
	}
	if _, _, err := n.EndBlock(); err != nil {
		c19Panic(c, err, t)
		return
	}
	if t2.IsZero() {
		return
	}
	// optional: governance moves the current period's end into the past, then
	// the query (same block time) must report zero for the ended period.
	if c.R.Intn(6) == 0 && curIdx >= 0 && curIdx < len(mc.Sorted)-1 && zeroProbe == "" {
		c19EndedByUpdate(c, n, mc, curIdx, t, t2)
		return
	}
	before := n.App.BankKeeper.GetSupply(n.Ctx(), mintDenom).Amount.BigInt()
	if _, err := n.BeginBlock(t2); err != nil {
		c19Panic(c, err, t2)
		return
	}
	after := n.App.BankKeeper.GetSupply(n.Ctx(), mintDenom).Amount.BigInt()
	minted := new(big.Int).Sub(after, before)
	st2 := n.App.CfeminterKeeper.GetMinterState(n.Ctx())
	if st2.SequenceId != st.SequenceId {
		// t2 was meant to stay inside the same period; ms alignment may not allow it
		c.Count("period_changed_skipped", 1)
		return
	}
	if S.Sign() == 0 {
		// no supply: the rate is reported as 0 by definition, nothing to compare
		c.Count("zero_supply_probes", 1)
		return
	}
	dt := t2.Sub(t)
	X := new(big.Rat).Mul(I, new(big.Rat).SetInt(S))
	X.Mul(X, new(big.Rat).SetFrac(big.NewInt(int64(dt)), big.NewInt(yearNs)))
	slack := big.NewRat(1, 1)
	periodLen := pEnd.Sub(pStart)
	if curIdx == pi && periodLen > 0 {
		slack.Add(slack, new(big.Rat).Mul(X, new(big.Rat).SetFrac(big.NewInt(int64(2*time.Millisecond)), big.NewInt(int64(periodLen)))))
	} else {
		slack.Add(slack, new(big.Rat).Mul(X, big.NewRat(2, 1000)))
	}
	s1 := new(big.Rat).SetInt(new(big.Int).Add(S, big.NewInt(1)))
	s1.Mul(s1, new(big.Rat).SetFrac(big.NewInt(int64(dt)), big.NewInt(yearNs)))
	s1.Mul(s1, new(big.Rat).SetFrac(big.NewInt(2), new(big.Int).Exp(big.NewInt(10), big.NewInt(18), nil)))
	slack.Add(slack, s1)
	if stepLen > 0 {
		slack.Add(slack, new(big.Rat).Mul(big.NewRat(1, 1_000_000_000), new(big.Rat).SetFrac(big.NewInt(int64(dt)), big.NewInt(int64(stepLen)))))
	}
	diff := new(big.Rat).Sub(new(big.Rat).SetInt(minted), X)
	diff.Abs(diff)
	if diff.Cmp(slack) > 0 {
		c.ViolateD("C19/inflation-vs-emission", map[string]string{"config": mc.Describe(), "t": fmtTime(t), "t2": fmtTime(t2), "supply": S.String(), "inflation": resp.Inflation.String(), "minted": minted.String(), "expected": X.FloatString(6), "slack": slack.FloatString(6)},
			"minted %s over %s but inflation*supply*dt/year = %s (slack %s), period %d kind %s", minted, dt, X.FloatString(3), slack.FloatString(3), curIdx+1, mc.Desc[curIdx])
		return
	}
	if minted.Cmp(big.NewInt(10)) > 0 {
		c.Nontrivial(true)
		c.Count("nontrivial_emission_probes", 1)
		if p.Kind == model.ExponentialStep && lo.After(pStart.Add(p.Step/2)) {
			c.Count("later_step_exponential_probes", 1)
		}
	}
	c.Sample(map[string]string{"config": mc.Describe(), "t": fmtTime(t), "dt": dt.String(), "supply": S.String(), "inflation": resp.Inflation.String(), "minted": minted.String(), "expected": X.FloatString(4)})
}

func c19Panic(c *fw.Case, err error, t time.Time) {
	if p := asPanic(err); p != nil {
		c.ViolateD("C19/panic", p.Stack, "%s panicked at %s: %s", p.Where, fmtTime(t), short(p.Value, 300))
	} else {
		c.Inconclusive("%v", err)
	}
}

// c19EndedByUpdate: an accepted UpdateMintersParams moves the end of the current
// period to an instant <= block time; the Inflation query in that block must be 0.
func c19EndedByUpdate(c *fw.Case, n *chain.Node, mc gen.MinterConfig, curIdx int, t, t2 time.Time) {
	if _, err := n.BeginBlock(t2); err != nil {
		c19Panic(c, err, t2)
		return
	}
	st := n.App.CfeminterKeeper.GetMinterState(n.Ctx())
	curIdx = int(st.SequenceId) - int(mc.FirstID)
	if curIdx >= len(mc.Sorted)-1 {
		return
	}
	// new end: strictly after the previous end / start, not after t2
	prev := mc.Params.StartTime
	if curIdx > 0 {
		prev = *mc.Sorted[curIdx-1].EndTime
	}
	if !prev.Before(t2) {
		return
	}
	newEnd := t2
	if c.R.Intn(2) == 0 {
		d := t2.Sub(prev)
		newEnd = prev.Add(1 + time.Duration(c.R.Int63n(int64(d))))
	}
	minters := make([]*minttypes.Minter, len(mc.Sorted))
	for i, m := range mc.Sorted {
		cp := *m
		minters[i] = &cp
	}
	minters[curIdx].EndTime = &newEnd
	// later ends must stay increasing
	okOrder := true
	for i := curIdx + 1; i < len(minters)-1; i++ {
		if !minters[i].EndTime.After(*minters[i-1].EndTime) {
			okOrder = false
		}
	}
	if !okOrder {
		return
	}
	msg := &minttypes.MsgUpdateMintersParams{Authority: appparams.GetAuthority(), StartTime: mc.Params.StartTime, Minters: minters}
	if _, _, err := n.GovExec(msg); err != nil {
		if p := asPanic(err); p != nil {
			c.ViolateD("C19/panic", p.Stack, "update panicked: %s", short(p.Value, 200))
		}
		c.Count("ended_update_rejected", 1)
		return
	}
	resp, err := n.App.CfeminterKeeper.Inflation(sdk.WrapSDKContext(n.Ctx()), &minttypes.QueryInflationRequest{})
	if err != nil {
		c.Violate("C19/inflation-query-error", "Inflation query failed after update: %v", err)
		return
	}
	c.Count("zero_ended_period_probes", 1)
	c.Nontrivial(true)
	if !resp.Inflation.IsZero() {
		c.ViolateD("C19/nonzero-ended-period/"+mc.Desc[curIdx], map[string]string{"config": mc.Describe(), "newEnd": fmtTime(newEnd), "blockTime": fmtTime(t2)},
			"inflation %s reported for current period %d (%s) whose end %s has passed at block time %s", resp.Inflation, curIdx+1, mc.Desc[curIdx], fmtTime(newEnd), fmtTime(t2))
	}
}
