package mon

import (
	"fmt"
	"sort"

	disttypes "github.com/chain4energy/c4e-chain/x/cfedistributor/types"
	minttypes "github.com/chain4energy/c4e-chain/x/cfeminter/types"
	sdk "github.com/cosmos/cosmos-sdk/types"
	authtypes "github.com/cosmos/cosmos-sdk/x/auth/types"
)

// Independent restatement of the validation rules of the pinned commit. The
// stored parameters are checked against these AND against the module's own
// Validate(): a change that weakens the module's validation cannot vouch for itself.

// minterRulesViolation returns "" when p satisfies the cfeminter parameter rules.
func minterRulesViolation(p minttypes.Params) string {
	if p.MintDenom == "" || sdk.ValidateDenom(p.MintDenom) != nil {
		return fmt.Sprintf("mint denom %q is not a valid denomination", p.MintDenom)
	}
	if len(p.Minters) == 0 {
		return "no periods"
	}
	ms := append([]*minttypes.Minter{}, p.Minters...)
	for _, m := range ms {
		if m == nil {
			return "nil period"
		}
	}
	sort.SliceStable(ms, func(i, j int) bool { return ms[i].SequenceId < ms[j].SequenceId })
	if ms[0].SequenceId == 0 {
		return "first sequence id is 0"
	}
	for i, m := range ms {
		last := i == len(ms)-1
		if i > 0 && m.SequenceId != ms[i-1].SequenceId+1 {
			return fmt.Sprintf("sequence ids not consecutive at position %d", i+1)
		}
		if last && m.EndTime != nil {
			return "last period has an end time"
		}
		if !last && m.EndTime == nil {
			return fmt.Sprintf("period %d has no end time", m.SequenceId)
		}
		if !last {
			if i == 0 && !m.EndTime.After(p.StartTime) {
				return fmt.Sprintf("first period ends at %s, not after the start time %s", m.EndTime.UTC().Format("2006-01-02T15:04:05.999999999Z"), p.StartTime.UTC().Format("2006-01-02T15:04:05.999999999Z"))
			}
			if i > 0 && !m.EndTime.After(*ms[i-1].EndTime) {
				return fmt.Sprintf("period %d does not end after period %d", m.SequenceId, ms[i-1].SequenceId)
			}
		}
		if m.Config == nil {
			return fmt.Sprintf("period %d has no configuration", m.SequenceId)
		}
		switch cfg := m.Config.GetCachedValue().(type) {
		case *minttypes.NoMinting:
		case *minttypes.LinearMinting:
			if m.EndTime == nil {
				return fmt.Sprintf("linear period %d has no end time", m.SequenceId)
			}
			if cfg == nil || cfg.Amount.IsNil() || cfg.Amount.IsNegative() {
				return fmt.Sprintf("linear period %d has an invalid amount", m.SequenceId)
			}
		case *minttypes.ExponentialStepMinting:
			if cfg == nil || cfg.Amount.IsNil() || !cfg.Amount.IsPositive() {
				return fmt.Sprintf("exponential period %d has a non-positive amount", m.SequenceId)
			}
			if cfg.AmountMultiplier.IsNil() || cfg.AmountMultiplier.IsNegative() {
				return fmt.Sprintf("exponential period %d has an invalid multiplier", m.SequenceId)
			}
			if cfg.StepDuration <= 0 {
				return fmt.Sprintf("exponential period %d has step duration %s", m.SequenceId, cfg.StepDuration)
			}
		default:
			return fmt.Sprintf("period %d has a configuration of unknown type %T", m.SequenceId, cfg)
		}
	}
	return ""
}

func distAccountViolation(a disttypes.Account) string {
	switch a.Type {
	case disttypes.Main:
	case disttypes.InternalAccount:
		if a.Id == "" {
			return "internal account without id"
		}
	case disttypes.BaseAccount:
		addr, err := sdk.AccAddressFromBech32(a.Id)
		if err != nil {
			return fmt.Sprintf("base account id %q is not an address", a.Id)
		}
		if addr.Equals(authtypes.NewModuleAddress(disttypes.DistributorMainAccount)) {
			return "base account that is the distributor main account"
		}
	case disttypes.ModuleAccount:
		if a.Id == disttypes.DistributorMainAccount {
			return "module account that is the distributor main account"
		}
		// existence in the application's module-account permissions is checked by the module's own rule
	default:
		return fmt.Sprintf("account of unknown type %q", a.Type)
	}
	return ""
}

// distRulesViolation returns "" when the sub-distributor list satisfies the cfedistributor rules.
func distRulesViolation(sds []disttypes.SubDistributor) string {
	one := sdk.OneDec()
	names, shareNames := map[string]bool{}, map[string]bool{}
	lastRole := map[string]string{} // MAIN and internal accounts: role of the last occurrence
	key := func(a disttypes.Account) string {
		if a.Type == disttypes.Main {
			return disttypes.Main
		}
		return a.Type + "-" + a.Id
	}
	for _, sd := range sds {
		if sd.Name == "" {
			return "sub-distributor without name"
		}
		if names[sd.Name] {
			return "duplicate sub-distributor name " + sd.Name
		}
		names[sd.Name] = true
		inThis := map[string]bool{}
		note := func(a disttypes.Account, role string) string {
			k := key(a)
			if inThis[k] {
				return fmt.Sprintf("account %s occurs twice in sub-distributor %s", k, sd.Name)
			}
			inThis[k] = true
			if a.Type == disttypes.Main || a.Type == disttypes.InternalAccount {
				lastRole[k] = role
			}
			return ""
		}
		if len(sd.Sources) == 0 {
			return "sub-distributor " + sd.Name + " without source"
		}
		for _, s := range sd.Sources {
			if s == nil {
				return "nil source in " + sd.Name
			}
			if v := distAccountViolation(*s); v != "" {
				return sd.Name + ": source: " + v
			}
			if v := note(*s, "source"); v != "" {
				return v
			}
		}
		d := sd.Destinations
		if d.BurnShare.IsNil() || d.BurnShare.IsNegative() || d.BurnShare.GTE(one) {
			return sd.Name + ": burn share outside [0,1)"
		}
		if v := distAccountViolation(d.PrimaryShare); v != "" {
			return sd.Name + ": primary share: " + v
		}
		if v := note(d.PrimaryShare, "destination"); v != "" {
			return v
		}
		prim := sd.Name + "_primary"
		if shareNames[prim] {
			return "duplicate share name " + prim
		}
		shareNames[prim] = true
		sum := d.BurnShare
		for _, sh := range d.Shares {
			if sh == nil {
				return "nil share in " + sd.Name
			}
			if sh.Name == "" || sh.Name == prim {
				return sd.Name + ": share name empty or reserved"
			}
			if shareNames[sh.Name] {
				return "duplicate share name " + sh.Name
			}
			shareNames[sh.Name] = true
			if sh.Share.IsNil() || sh.Share.IsNegative() || sh.Share.GTE(one) {
				return sd.Name + ": share " + sh.Name + " outside [0,1)"
			}
			if v := distAccountViolation(sh.Destination); v != "" {
				return sd.Name + ": share " + sh.Name + ": " + v
			}
			if v := note(sh.Destination, "destination"); v != "" {
				return v
			}
			sum = sum.Add(sh.Share)
		}
		if sum.GTE(one) {
			return sd.Name + ": shares add up to 1 or more"
		}
	}
	if lastRole[disttypes.Main] == "" {
		return "no sub-distributor with the main account as source"
	}
	for k, role := range lastRole {
		if role != "source" {
			return "last occurrence of " + k + " is a destination"
		}
	}
	return ""
}
