package mon

import (
	"fmt"
	"math/big"
	"os"
	"strings"

	"verifharness/chain"
	"verifharness/fw"
	"verifharness/model"

	disttypes "github.com/chain4energy/c4e-chain/x/cfedistributor/types"
	minttypes "github.com/chain4energy/c4e-chain/x/cfeminter/types"
	sdk "github.com/cosmos/cosmos-sdk/types"
)

func init() {
	fw.Register(&fw.Monitor{
		ID: "C01", Level: "exploration",
		Rule: "case = one full-application history through ABCI (generated valid emission x sub-distributor configuration, 15-40 blocks, thorough 30-80, block times hugging schedule and vesting boundaries; 0-4 signed vesting/bank/staking transactions per block of which ~40% are invalid, governance updates, signature messages, fees). " +
			"Oracle per block: supply == sum of balances for every denomination; supply delta over BeginBlock == sum(coinbase events) - sum(burn events); coinbase only by the cfeminter module account, burn only by distributor_main_account; sum(coinbase) == floor of the exact big.Rat schedule's emission for that block (while the emission parameters are the genesis ones); " +
			"sum(burn) == the integer burn payout the exact distributor model computes for that block from the pre-block books and balances; supply delta == 0 across every DeliverTx (accepted or rejected), governance execution, signature message and EndBlock; custom messages move coins only between fee payer, fee collector, sender, vesting module account and recipient in exactly the expected amounts. " +
			"Non-trivial: minted>0 in >=3 blocks, burned>0 at least once, >=5 custom transactions delivered of which >=1 failed. Distinct by configuration+history hash." +
			" Every 8th case is the distributor bench in whole numbers with the burned total compared exactly; every 16th of those starts with a base account planted on an unused collector's address (payouts to it are refused transfers).",
		Assumptions:   []string{"the burn prediction re-synchronises the model with the real pre-block books every block (it predicts one block at a time); exact multi-block distribution is C04's subject"},
		Cases:         func(t string) int { return tierN(t, 320, 3000) },
		MinNontrivial: func(t string) int { return tierN(t, 50, 500) },
		Run:           runC01,
	})
}

func runC01(c *fw.Case) {
	if c.Index%16 == 3 {
		c01BurnBoundaryProbe(c)
		c.KeepViolations("C01/")
		return
	}
	if c.Index%8 == 7 {
		// distributor-only chain (no minting): supply changes by the burns alone, and those
		// must be exactly what the configuration burns, block by block
		runDistScenario(c, "C01")
		c.KeepViolations("C01/")
		return
	}
	r, err := newRich(c, false)
	if err != nil {
		if p := asPanic(err); p != nil {
			c.ViolateD("C10/initchain-panic", p.Stack, "InitChain panicked: %s", short(p.Value, 200))
		}
		c.KeepViolations("C01/")
		c.Describe("no-config")
		return
	}
	e := r.e
	n := e.n
	nBlocks := 15 + c.R.Intn(26)
	if c.Tier == "thorough" {
		nBlocks = 30 + c.R.Intn(51)
	}
	c.Describe(r.mc.Describe(), nBlocks)
	c.Describe(n.App.CfedistributorKeeper.GetParams(n.Ctx()).String())
	mainAddr := chain.ModuleAddr(disttypes.DistributorMainAccount)
	minterAddr := chain.ModuleAddr(minttypes.ModuleName)
	genesisParams := hexParams(n)
	cum := new(big.Int)
	mintBlocks, burnBlocks, customTx, customFailed := 0, 0, 0, 0
	dm := model.NewDistributor()
	addrOf := func(a model.DAccount) string {
		switch a.Type {
		case model.KMain:
			return mainAddr
		case model.KModule:
			return chain.ModuleAddr(a.ID)
		case model.KBase:
			// one account whichever way its address is spelled (bech32 is all lower or all upper
			// case): the bank sweeps it once per block, the model must not see two accounts
			return strings.ToLower(a.ID)
		}
		return a.ID
	}
	for b := 1; b <= nBlocks; b++ {
		pre := n.Snap()
		preStates := n.App.CfedistributorKeeper.GetAllStates(n.Ctx())
		subs := toModelSubs(n.App.CfedistributorKeeper.GetParams(n.Ctx()).SubDistributors)
		// spendable balances of the distributor's sources before the block
		srcSpendable := map[string]model.Coins{}
		for _, sd := range subs {
			for _, s := range sd.Sources {
				if s.Type == model.KModule || s.Type == model.KBase {
					if a, err := sdk.AccAddressFromBech32(addrOf(s)); err == nil {
						out := model.Coins{}
						for _, cn := range n.App.BankKeeper.SpendableCoins(n.Ctx(), a) {
							out[cn.Denom] = new(big.Rat).SetInt(cn.Amount.BigInt())
						}
						srcSpendable[addrOf(s)] = out
					}
				}
			}
		}
		t := r.nextTime(c)
		if os.Getenv("VERIF_TRACE") != "" {
			fmt.Fprintln(os.Stderr, "C01 block", b, fmtTime(t))
		}
		res, err := n.BeginBlock(t)
		r.now = t
		if err != nil {
			if p := asPanic(err); p != nil {
				c.ViolateD("C10/beginblock-panic", p.Stack, "BeginBlock panicked: %s", short(p.Value, 200))
			}
			break
		}
		post := n.Snap()
		led, lerr := chain.Ledger(res.Events)
		if lerr != nil {
			c.Inconclusive("cannot parse bank events: %v", lerr)
			return
		}
		for _, d := range post.Denoms() {
			if post.SumBalances(d).Cmp(post.Sup(d)) != 0 {
				c.Violate("C01/supply-vs-balances", "block %d: supply of %s is %s but balances sum to %s", b, d, post.Sup(d), post.SumBalances(d))
			}
			want := new(big.Int).Add(pre.Sup(d), bigOf(led.Minted, d))
			want.Sub(want, bigOf(led.Burned, d))
			if post.Sup(d).Cmp(want) != 0 {
				c.ViolateD("C01/supply-delta-vs-events", map[string]string{"denom": d, "before": pre.Sup(d).String(), "after": post.Sup(d).String(), "coinbase": bigOf(led.Minted, d).String(), "burn": bigOf(led.Burned, d).String()},
					"block %d: supply of %s went from %s to %s, coinbase events say +%s, burn events -%s", b, d, pre.Sup(d), post.Sup(d), bigOf(led.Minted, d), bigOf(led.Burned, d))
			}
		}
		for m := range led.Minters {
			if m != minterAddr {
				c.Violate("C01/foreign-minter", "block %d: coins minted by %s (only the cfeminter module account may mint)", b, m)
			}
		}
		for bu := range led.Burners {
			if bu != mainAddr {
				c.Violate("C01/foreign-burner", "block %d: coins burned by %s (only the distributor main account may burn)", b, bu)
			}
		}
		mintDenom := n.App.CfeminterKeeper.GetParams(n.Ctx()).MintDenom
		minted := bigOf(led.Minted, mintDenom)
		for d, v := range led.Minted {
			if d != mintDenom && v.Sign() != 0 {
				c.Violate("C01/minted-wrong-denom", "block %d: %s %s minted, mint denom is %s", b, v, d, mintDenom)
			}
		}
		if minted.Sign() > 0 {
			mintBlocks++
		}
		// (d) scheduled emission, while the emission parameters are untouched
		if hexParams(n) == genesisParams {
			cum.Add(cum, minted)
			exact := r.mc.Schedule.Cum(t)
			want := model.Floor(exact)
			if cum.Cmp(want) != 0 {
				d := new(big.Int).Sub(cum, want)
				if model.NearInteger(exact, eps6) && d.CmpAbs(big.NewInt(1)) <= 0 && hasExp(r.mc) {
					c.Count("schedule_ambiguous", 1)
				} else {
					c.ViolateD("C01/mint-vs-schedule", map[string]string{"config": r.mc.Describe(), "t": fmtTime(t)}, "block %d: cumulative minted %s, scheduled %s", b, cum, want)
				}
			}
			c.Count("schedule_checks", 1)
		} else {
			genesisParams = "changed"
		}
		// (e) burn payout predicted by the exact model from the pre-block books
		dm.Owed, dm.Bal = map[string]model.Coins{}, map[string]model.Coins{}
		sumOwed := model.Coins{}
		for _, s := range preStates {
			k := stateKey(s)
			dm.Owed[k] = decCoinsToModel(s.Remains)
			sumOwed.Add(dm.Owed[k])
		}
		for a, cs := range srcSpendable {
			dm.Bal[a] = cs
		}
		dm.Unowed = model.Coins{}
		for d, v := range pre.Balances[mainAddr] {
			dm.Unowed[d] = new(big.Rat).SetInt(v)
		}
		if minted.Sign() > 0 {
			dm.Unowed.Add(model.Coins{mintDenom: new(big.Rat).SetInt(minted)})
		}
		dm.Unowed.Sub(sumOwed)
		dm.Paid = map[string]model.Coins{}
		dm.Block(subs, addrOf, func(key string) bool { return strings.HasPrefix(key, model.KBase+"-") && strings.EqualFold(key, model.KBase+"-"+r.dk.blocked) }, nil)
		predicted := dm.Paid[model.BurnKey]
		for d := range unionKeysRat(predicted, led.Burned) {
			pv := new(big.Int)
			if predicted[d] != nil {
				pv = model.Floor(predicted[d])
			}
			bv := bigOf(led.Burned, d)
			if pv.Cmp(bv) != 0 {
				owedBurn := dm.Owed[model.BurnKey][d]
				total := new(big.Rat)
				if owedBurn != nil {
					total.Add(total, owedBurn)
				}
				if predicted[d] != nil {
					total.Add(total, predicted[d])
				}
				diff := new(big.Int).Sub(pv, bv)
				if diff.CmpAbs(big.NewInt(1)) <= 0 && model.NearInteger(total, eps6) {
					c.Count("burn_ambiguous", 1)
					continue
				}
				c.ViolateD("C01/burn-vs-model", map[string]string{"denom": d, "predicted": pv.String(), "burned": bv.String(), "subs": fmt.Sprint(toModelSubsStrings(n.App.CfedistributorKeeper.GetParams(n.Ctx()).SubDistributors)), "pre_states": fmt.Sprint(preStates), "src_spendable": fmt.Sprint(srcSpendable), "main_pre": fmt.Sprint(pre.Balances[mainAddr]), "minted": minted.String()}, "block %d: %s %s burned, the distributor model predicts %s", b, bv, short(d, 10), pv)
			}
		}
		if len(led.Burned) > 0 {
			burnBlocks++
		}
		c.Count("blocks", 1)
		// ---- transactions ----
		nOps := c.R.Intn(5)
		for i := 0; i < nOps; i++ {
			op := e.genOp(c.R, t)
			o, err := e.exec(op, t)
			if err != nil {
				continue
			}
			e.observe(c, o)
			if op.custom {
				customTx++
				if o.res.Code != 0 {
					customFailed++
				}
			}
		}
		// governance / signature executions never move supply or balances
		if c.R.Intn(5) == 0 {
			before := n.Snap()
			if msg, _ := c13Message(c, n, r.dk, r.mc, govAuthority(), t); msg != nil {
				n.GovExec(msg)
			}
			execSigOn(n, c01SigMsg(c, e))
			after := n.Snap()
			if len(chain.DiffSupply(before, after)) > 0 || len(chain.BalanceDeltas(before, after)) > 0 {
				c.Violate("C01/supply-changed-by-out-of-band-message", "a governance / signature execution changed supply or balances")
			}
		}
		beforeEnd := n.Snap()
		if _, _, err := n.EndBlock(); err != nil {
			if p := asPanic(err); p != nil {
				c.ViolateD("C10/endblock-panic", p.Stack, "EndBlock panicked: %s", short(p.Value, 200))
			}
			break
		}
		afterEnd := n.Snap()
		for _, d := range chain.DiffSupply(beforeEnd, afterEnd) {
			c.Violate("C01/supply-changed-by-endblock", "block %d: EndBlock changed the supply of %s", b, d)
		}
		if c.NViolPrefix("C01/") > 0 {
			break
		}
	}
	c.MapViolationKeys(func(k string) string {
		switch {
		case strings.HasPrefix(k, "C01/"):
			return k
		case k == "C06/withdraw-paid-wrong-amount" || k == "C08/send-transfer" || k == "C08/create-account-transfer" || k == "C07/split-transfer" || k == "C05/rejected-tx-moved-coins":
			return "C01/message-moved-wrong-coins/" + strings.ReplaceAll(k, "/", "-")
		}
		return ""
	})
	c.Count("blocks_with_mint", int64(mintBlocks))
	c.Count("blocks_with_burn", int64(burnBlocks))
	c.Count("custom_txs", int64(customTx))
	c.Count("custom_txs_failed", int64(customFailed))
	c.Nontrivial(mintBlocks >= 3 && burnBlocks >= 1 && customTx >= 5 && customFailed >= 1)
	c.Sample(map[string]interface{}{"minter": r.mc.Describe(), "blocks": nBlocks, "mint_blocks": mintBlocks, "burn_blocks": burnBlocks, "custom_txs": customTx, "failed": customFailed, "cumulative_minted_while_params_unchanged": cum.String()})
}

func hexParams(n *chain.Node) string {
	return paramsBytes(n)["cfeminter"]
}

func unionKeysRat(a model.Coins, b map[string]*big.Int) map[string]bool {
	out := map[string]bool{}
	for k := range a {
		out[k] = true
	}
	for k := range b {
		out[k] = true
	}
	return out
}

func c01SigMsg(c *fw.Case, e *vestEnv) sdk.Msg {
	return c15QuickSigMsg(c, e)
}
