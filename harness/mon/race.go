package mon

import (
	"bufio"
	"fmt"
	"math/rand"
	"os"
	"os/exec"
	"path/filepath"
	"regexp"
	"sort"
	"strings"
	"sync"
	"sync/atomic"
	"time"

	"verifharness/fw"
	"verifharness/gen"

	minttypes "github.com/chain4energy/c4e-chain/x/cfeminter/types"
	vesttypes "github.com/chain4energy/c4e-chain/x/cfevesting/types"
	abci "github.com/tendermint/tendermint/abci/types"
)

// RaceStress is the workload run under the race detector (binary built with
// -race): (a) a serial full-application history, replayed once more on a second
// application in the same process; (b) while further blocks are executed, several
// goroutines issue read-only gRPC queries of the custom modules against the
// committed state through app.Query. It returns the numbers of blocks / queries.
func RaceStress(seed int64, blocks int) (int, int64) {
	m := fw.Get("C11")
	_ = m
	c := fw.NewBareCase("C11", "quick", seed, 0)
	r, err := newRich(c, true)
	if err != nil {
		return 0, 0
	}
	for b := 1; b <= blocks; b++ {
		r.begin(r.nextTime(c))
		if r.lastBeginErr[0] != nil {
			break
		}
		r.traffic(c, 4)
		if errs := r.end(); errs[0] != nil {
			break
		}
	}
	n := r.e.n
	if n.InBlock {
		return 0, 0
	}
	ReplayLog(ReplayFile{Genesis: n.Genesis, GenTime: gen.Epoch, Log: n.Log})
	// (b) queries concurrent with block execution
	var stop int32
	var queries int64
	var wg sync.WaitGroup
	cdc := n.Enc.Marshaler
	reqs := map[string][]byte{}
	add := func(path string, req interface{ Marshal() ([]byte, error) }) {
		bz, _ := req.Marshal()
		reqs[path] = bz
	}
	_ = cdc
	add("/chain4energy.c4echain.cfeminter.Query/State", &minttypes.QueryStateRequest{})
	add("/chain4energy.c4echain.cfeminter.Query/Inflation", &minttypes.QueryInflationRequest{})
	add("/chain4energy.c4echain.cfeminter.Query/Params", &minttypes.QueryParamsRequest{})
	add("/chain4energy.c4echain.cfevesting.Query/VestingsSummary", &vesttypes.QueryVestingsSummaryRequest{})
	add("/chain4energy.c4echain.cfevesting.Query/GenesisVestingsSummary", &vesttypes.QueryGenesisVestingsSummaryRequest{})
	add("/chain4energy.c4echain.cfevesting.Query/VestingPools", &vesttypes.QueryVestingPoolsRequest{Owner: r.e.owners[0].Bech()})
	add("/chain4energy.c4echain.cfevesting.Query/VestingType", &vesttypes.QueryVestingTypeRequest{})
	var paths []string
	for p := range reqs {
		paths = append(paths, p)
	}
	sort.Strings(paths)
	for g := 0; g < 4; g++ {
		wg.Add(1)
		go func(g int) {
			defer wg.Done()
			rr := rand.New(rand.NewSource(seed + int64(g)))
			for atomic.LoadInt32(&stop) == 0 {
				p := paths[rr.Intn(len(paths))]
				func() {
					defer func() { recover() }()
					n.App.Query(abci.RequestQuery{Path: p, Data: reqs[p]})
				}()
				atomic.AddInt64(&queries, 1)
			}
		}(g)
	}
	done := 0
	for b := 1; b <= blocks; b++ {
		r.begin(r.nextTime(c))
		if r.lastBeginErr[0] != nil {
			break
		}
		r.traffic(c, 3)
		if errs := r.end(); errs[0] != nil {
			break
		}
		done++
	}
	atomic.StoreInt32(&stop, 1)
	wg.Wait()
	return done, queries
}

var frameRe = regexp.MustCompile(`^\s{2}(\S+)\(`)

// raceReport is one parsed report of the race detector.
type raceReport struct {
	accessFrames []string // innermost frame of each of the two racing accesses
	inRepo       bool
	text         string
}

func parseRaceLogs(dir string) (reports []raceReport) {
	files, _ := filepath.Glob(filepath.Join(dir, "race.log*"))
	for _, f := range files {
		fh, err := os.Open(f)
		if err != nil {
			continue
		}
		sc := bufio.NewScanner(fh)
		sc.Buffer(make([]byte, 1<<20), 1<<26)
		var cur *raceReport
		expectFrame := false
		for sc.Scan() {
			line := sc.Text()
			if strings.HasPrefix(line, "WARNING: DATA RACE") {
				if cur != nil {
					reports = append(reports, *cur)
				}
				cur = &raceReport{}
			}
			if cur == nil {
				continue
			}
			if len(cur.text) < 6000 {
				cur.text += line + "\n"
			}
			t := strings.TrimSpace(line)
			if strings.HasPrefix(t, "Write at") || strings.HasPrefix(t, "Read at") || strings.HasPrefix(t, "Previous write at") || strings.HasPrefix(t, "Previous read at") {
				expectFrame = true
				continue
			}
			if expectFrame {
				if m := frameRe.FindStringSubmatch(line); m != nil {
					cur.accessFrames = append(cur.accessFrames, m[1])
					if strings.HasPrefix(m[1], "github.com/chain4energy/c4e-chain/") {
						cur.inRepo = true
					}
					expectFrame = false
				}
			}
		}
		if cur != nil {
			reports = append(reports, *cur)
		}
		fh.Close()
	}
	return reports
}

// racePass builds the race-instrumented binary, runs the stress workload and
// classifies the reports. Only reports whose racing access itself lies in a
// package of the repository count as violations; everything else (cosmos-sdk
// baseapp / rootmulti / iavl racing with concurrent queries, which real nodes
// serialise) is counted and reported in the evidence.
func racePass(prop string, seed int64, agg *fw.Aggregate) {
	start := time.Now()
	dir, err := os.MkdirTemp("", "verif-race-")
	if err != nil {
		agg.Inconclusive = append(agg.Inconclusive, "race pass: "+err.Error())
		return
	}
	defer os.RemoveAll(dir)
	bin := filepath.Join(dir, "verifcheck-race")
	build := exec.Command("go", "build", "-race", "-tags", "verif", "-o", bin, "./cmd/verifcheck")
	build.Dir = "/verif/harness"
	if out, err := build.CombinedOutput(); err != nil {
		agg.Inconclusive = append(agg.Inconclusive, "race pass: build with -race failed: "+short(string(out), 400))
		return
	}
	runs := 3
	for i := 0; i < runs; i++ {
		cmd := exec.Command("timeout", "-s", "QUIT", "900", bin, "racestress", fmt.Sprint(seed+int64(i)), "25")
		cmd.Env = append(os.Environ(), "GORACE=halt_on_error=0 log_path="+filepath.Join(dir, "race.log"))
		out, _ := cmd.CombinedOutput()
		agg.Counters["race_pass_output_lines"] += int64(strings.Count(string(out), "\n"))
		var blocks, queries int64
		fmt.Sscanf(lastLine(string(out)), "racestress blocks=%d queries=%d", &blocks, &queries)
		agg.Counters["race_pass_blocks_under_detector"] += blocks
		agg.Counters["race_pass_concurrent_queries"] += queries
	}
	// the property's own serial workload under the detector (also enables checkptr)
	for idx := 0; idx < 6; idx++ {
		cmd := exec.Command("timeout", "-s", "QUIT", "900", bin, "case", prop, "quick", fmt.Sprint(seed), fmt.Sprint(idx))
		cmd.Env = append(os.Environ(), "GORACE=halt_on_error=0 log_path="+filepath.Join(dir, "race.log"))
		if out, err := cmd.CombinedOutput(); err != nil {
			agg.Violations = append(agg.Violations, fw.AggViolation{Index: idx, Violation: fw.Violation{Key: prop + "/crash-under-race-detector", Msg: "case died under the race detector / checkptr: " + short(string(out), 300), Detail: short(string(out), 4000)}})
		} else {
			agg.Counters["race_pass_serial_cases"]++
		}
	}
	reports := parseRaceLogs(dir)
	seen := map[string]bool{}
	upstream := map[string]bool{}
	for _, r := range reports {
		fr := append([]string{}, r.accessFrames...)
		sort.Strings(fr)
		key := strings.Join(fr, " <-> ")
		if r.inRepo {
			if !seen[key] {
				seen[key] = true
				agg.Violations = append(agg.Violations, fw.AggViolation{Index: -1, Violation: fw.Violation{Key: prop + "/data-race/" + key, Msg: "data race with the racing access inside the repository: " + key, Detail: r.text}})
			}
		} else {
			upstream[key] = true
		}
	}
	agg.Counters["race_reports_total"] = int64(len(reports))
	agg.Counters["race_reports_in_repository_distinct"] = int64(len(seen))
	agg.Counters["race_reports_upstream_distinct"] = int64(len(upstream))
	agg.Counters["race_pass_wall_s"] = int64(time.Since(start).Seconds())
	if agg.Counters["race_pass_blocks_under_detector"] == 0 {
		agg.Inconclusive = append(agg.Inconclusive, "race pass: the instrumented workload executed no blocks")
	}
}

func lastLine(s string) string {
	lines := strings.Split(strings.TrimSpace(s), "\n")
	return lines[len(lines)-1]
}
