package mon

import (
	"encoding/json"
	"fmt"
	abci "github.com/tendermint/tendermint/abci/types"
	"os"
	"os/exec"
	"time"

	"verifharness/chain"
	"verifharness/fw"
	"verifharness/gen"
)

func init() {
	fw.Register(&fw.Monitor{
		ID: "C11", Level: "exploration",
		Rule: "case = one recorded full-application history (genesis bytes, block headers, signed transaction bytes, governance executions, signature-module messages; 15-35 blocks, thorough 30-70; many sub-distributors/shares/denominations so that map-ordered code has room to differ) replayed on (a) a second fresh application in the same process and (b) a fresh application in a separate OS process (new hash seeds, new address space; 2 processes in thorough). " +
			"Oracle: byte equality of the per-height digest = sha256(BeginBlock events, every DeliverTx {code, codespace, data, gas used, events}, out-of-band execution results, EndBlock events and validator updates, Commit app hash). Log strings are left out (not hashed by Tendermint). " +
			"Non-trivial: >=25 transactions, >=1 accepted update and >=4 distributor states in the history. Distinct by history hash. Thorough additionally replays a slice under the race detector (see DESIGN.md 1.7)." +
			" Variants: second application in the same process, CheckTx/Simulate first + queries, restart every few blocks, --x-crisis-skip-assert-invariants + own minimum-gas-prices, --inv-check-period, log_level debug; every 16th case runs the staged v1.2.0 upgrade twice on the same state and compares the stored bytes.",
		Assumptions:   []string{"replicas are driven serially, as Tendermint drives ABCI"},
		Cases:         func(t string) int { return tierN(t, 96, 1500) },
		MinNontrivial: func(t string) int { return tierN(t, 8, 200) },
		Run:           runC11,
		Extra: func(tier string, seed int64, agg *fw.Aggregate) {
			if tier == "thorough" || os.Getenv("VERIF_RACE") != "" {
				racePass("C11", seed, agg)
			}
		},
	})
}

// ReplayFile is the on-disk form of a recorded history.
type ReplayFile struct {
	Genesis []byte       `json:"genesis"`
	GenTime time.Time    `json:"gen_time"`
	Log     []chain.Step `json:"log"`
}

// ReplayOpts are legitimate differences between two nodes that execute the same blocks.
type ReplayOpts struct {
	CheckTxFirst   bool // CheckTx + Simulate of every transaction before it is delivered
	RestartEvery   int  // restart the node (new application object, same database) every n heights
	Queries        bool // serve read-only queries between blocks
	SkipInvariants bool // started with --x-crisis-skip-assert-invariants
	InvCheckPeriod uint // started with --inv-check-period=n
	DebugLog       bool // runs with log_level debug (every log call formats its values)
}

// ReplayLog re-executes a recorded history on a fresh application and returns the digests.
func ReplayLog(rf ReplayFile) ([]string, error) { return ReplayLogOpts(rf, ReplayOpts{}) }

func ReplayLogOpts(rf ReplayFile, o ReplayOpts) ([]string, error) {
	if o.SkipInvariants {
		// ... and with its own (high) minimum gas prices, a setting that only concerns which
		// transactions the node admits to its own mempool
		chain.AppOptions = map[string]interface{}{"x-crisis-skip-assert-invariants": true, "minimum-gas-prices": "1000uc4e,1000foo"}
		defer func() { chain.AppOptions = nil }()
	}
	if o.InvCheckPeriod > 0 {
		chain.InvCheckPeriod = o.InvCheckPeriod
		defer func() { chain.InvCheckPeriod = 0 }()
	}
	if o.DebugLog {
		chain.DebugLogger = true
		defer func() { chain.DebugLogger = false }()
	}
	n, err := chain.NewNodeFromGenesis(rf.Genesis, rf.GenTime, 1)
	if err != nil {
		return nil, err
	}
	n.Record = true
	if o.CheckTxFirst {
		// what the mempool would have seen before the block was proposed
		for _, s := range rf.Log {
			_ = s
		}
	}
	for i, s := range rf.Log {
		switch s.Kind {
		case "begin":
			if o.CheckTxFirst {
				// transactions of the coming block are checked and simulated first
				for _, t := range rf.Log[i+1:] {
					if t.Kind == "end" {
						break
					}
					if t.Kind == "tx" {
						n.CheckAndSimulate(t.Tx)
					}
				}
			}
			if _, err := n.BeginBlock(s.Time); err != nil {
				return n.Digests, fmt.Errorf("replay BeginBlock: %w", err)
			}
		case "tx":
			if _, err := n.DeliverTxBytes(s.Tx); err != nil {
				return n.Digests, err
			}
		case "gov":
			msg, err := n.DecodeMsg(s.GovMsg)
			if err != nil {
				return n.Digests, err
			}
			n.GovExec(msg)
		case "sig":
			msg, err := n.DecodeMsg(s.GovMsg)
			if err != nil {
				return n.Digests, err
			}
			execSigOn(n, msg)
		case "end":
			if _, _, err := n.EndBlock(); err != nil {
				return n.Digests, fmt.Errorf("replay EndBlock: %w", err)
			}
			if o.Queries {
				for _, p := range []string{"/chain4energy.c4echain.cfeminter.Query/State", "/chain4energy.c4echain.cfeminter.Query/Inflation", "/chain4energy.c4echain.cfevesting.Query/VestingsSummary", "/chain4energy.c4echain.cfevesting.Query/VestingType", "/chain4energy.c4echain.cfedistributor.Query/States"} {
					func() {
						defer func() { recover() }()
						n.App.Query(abci.RequestQuery{Path: p})
					}()
				}
			}
			if o.RestartEvery > 0 && n.Height%int64(o.RestartEvery) == 0 {
				if err := n.Restart(); err != nil {
					return n.Digests, fmt.Errorf("replay restart: %w", err)
				}
			}
		}
	}
	return n.Digests, nil
}

func runC11(c *fw.Case) {
	if c.Index%16 == 13 {
		// the upgrade block: two runs of the v1.2.0 upgrade on the same staged state (see C16)
		runC16(c)
		c.KeepViolations("C11/")
		return
	}
	r, err := newRich(c, true)
	if err != nil {
		c.Describe("no-config")
		return
	}
	nBlocks := 15 + c.R.Intn(21)
	if c.Tier == "thorough" {
		nBlocks = 30 + c.R.Intn(41)
	}
	for b := 1; b <= nBlocks; b++ {
		r.begin(r.nextTime(c))
		if r.lastBeginErr[0] != nil {
			c.Describe("panic")
			c.Count("histories_cut_short_by_panic", 1)
			break
		}
		r.traffic(c, 4)
		if errs := r.end(); errs[0] != nil {
			c.Count("histories_cut_short_by_panic", 1)
			break
		}
	}
	n := r.e.n
	if n.InBlock {
		// a block was left open by a panic: the recorded log ends there, still replayable
		n.Log = append(n.Log, chain.Step{Kind: "end"})
	}
	rf := ReplayFile{Genesis: n.Genesis, GenTime: gen.Epoch, Log: n.Log}
	c.Describe(r.mc.Describe(), len(n.Log), n.Digests)
	states := len(n.App.CfedistributorKeeper.GetAllStates(n.Ctx()))
	// (a) same process
	d2, err := ReplayLog(rf)
	if err != nil {
		c.Count("replay_errors", 1)
	}
	c11Compare(c, "second application in the same process", n.Digests, d2)
	// replicas that differ in what a real node legitimately does besides executing blocks
	d3, err := ReplayLogOpts(rf, ReplayOpts{CheckTxFirst: true, Queries: true})
	if err != nil {
		c.Count("replay_errors", 1)
	}
	c11Compare(c, "application that checks and simulates every transaction first and serves queries between blocks", n.Digests, d3)
	d4, err := ReplayLogOpts(rf, ReplayOpts{RestartEvery: 2 + c.R.Intn(3)})
	if err != nil {
		c.Count("replay_errors", 1)
	}
	c11Compare(c, "application that is restarted every few blocks", n.Digests, d4)
	d5, err := ReplayLogOpts(rf, ReplayOpts{SkipInvariants: true, CheckTxFirst: true})
	if err != nil {
		c.Count("replay_errors", 1)
	}
	c11Compare(c, "application started with --x-crisis-skip-assert-invariants and its own minimum-gas-prices", n.Digests, d5)
	d6, err := ReplayLogOpts(rf, ReplayOpts{InvCheckPeriod: uint(1 + c.R.Intn(3))})
	if err != nil {
		c.Count("replay_errors", 1)
	}
	c11Compare(c, "application started with --inv-check-period", n.Digests, d6)
	d7, err := ReplayLogOpts(rf, ReplayOpts{DebugLog: true})
	if err != nil {
		c.Count("replay_errors", 1)
	}
	c11Compare(c, "application running with log_level debug", n.Digests, d7)
	c.Count("variant_replicas", 5)
	// (b) separate processes
	nProc := 1
	if c.Tier == "thorough" {
		nProc = 2
	}
	if self, err := os.Executable(); err == nil {
		f, err := os.CreateTemp("", "verif-c11-*.json")
		if err == nil {
			json.NewEncoder(f).Encode(rf)
			f.Close()
			defer os.Remove(f.Name())
			for p := 0; p < nProc; p++ {
				// the other process differs in everything a second machine legitimately may
				// differ in: hash seeds, address space, local time zone, number of CPUs
				cmd := exec.Command(self, "replaylog", f.Name())
				tz := []string{"Pacific/Kiritimati", "America/Anchorage"}[p%2]
				cmd.Env = append(os.Environ(), "TZ="+tz, fmt.Sprintf("GOMAXPROCS=%d", 1+p*3))
				out, err := cmd.Output()
				if err != nil {
					c.Inconclusive("replica process failed: %v", err)
					return
				}
				var d3 []string
				if json.Unmarshal(out, &d3) != nil {
					c.Inconclusive("replica process printed no digests")
					return
				}
				c11Compare(c, "application in a separate OS process", n.Digests, d3)
				c.Count("process_replicas", 1)
			}
		}
	}
	c.Count("heights_compared", int64(len(n.Digests)))
	c.Count("txs", int64(r.txCount))
	c.Count("real_gov_proposals_submitted", int64(r.proposals))
	c.Count("legacy_param_change_proposals_submitted", int64(r.legacyProposals))
	c.Count("updates_accepted", int64(r.updatesOK))
	c.Max("max_distributor_states", int64(states))
	c.Nontrivial(r.txCount >= 25 && r.updatesOK > 0 && states >= 4)
	c.Sample(map[string]interface{}{"minter": r.mc.Describe(), "blocks": len(n.Digests), "txs": r.txCount, "steps": len(n.Log), "first_digests": firstN(n.Digests, 3)})
}

func firstN(s []string, n int) []string {
	if len(s) > n {
		return s[:n]
	}
	return s
}

func c11Compare(c *fw.Case, who string, a, b []string) {
	for i := 0; i < len(a) || i < len(b); i++ {
		var x, y string
		if i < len(a) {
			x = a[i]
		}
		if i < len(b) {
			y = b[i]
		}
		if x != y {
			c.ViolateD("C11/replica-divergence", map[string]string{"replica": who, "height": fmt.Sprint(i + 1), "primary": x, "other": y}, "the %s diverges from the primary at height %d (digest %s vs %s)", who, i+1, short(x, 16), short(y, 16))
			return
		}
	}
}
