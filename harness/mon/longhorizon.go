package mon

import (
	"fmt"
	"math/big"
	"time"

	"verifharness/chain"
	"verifharness/fw"
	"verifharness/gen"
	"verifharness/model"

	minttypes "github.com/chain4energy/c4e-chain/x/cfeminter/types"
	codectypes "github.com/cosmos/cosmos-sdk/codec/types"
	sdk "github.com/cosmos/cosmos-sdk/types"
)

// longHorizonProbe runs emission schedules whose periods and block times span centuries
// (the repository's own tests run 300 years; the main-net schedule has no end). A
// time.Duration holds about 292 years, and UnixNano wraps in 2262: neither limit may show
// in what is minted (C02) or in the reported inflation (C19). All expectations are computed
// from Unix seconds and nanoseconds with math/big.
//
// Shapes: 0 = one linear period of 250-600 years, then no minting; 1 = one unbounded
// exponential period with steps of 5-90 years; 2 = a linear period of 300-500 years followed
// by an unbounded exponential one. Blocks advance by days to decades up to ~700 years after
// the start; after some blocks a second block follows 1 s - 1 h later to compare the
// reported inflation with what that interval actually emits.
func longHorizonProbe(c *fw.Case, prop string) {
	r := c.R
	denom := "uc4e"
	start := gen.Epoch.Add(time.Duration(1+r.Intn(48)) * time.Hour).Add(time.Duration(r.Intn(1000)) * time.Millisecond)
	amt := func() *big.Int {
		a := new(big.Int).Exp(big.NewInt(10), big.NewInt(int64(12+r.Intn(14))), nil)
		return a.Add(a, big.NewInt(r.Int63n(1_000_000_000)))
	}
	mults := []string{"1", "0.5", "0.75", "0.999", "1.01"}
	any := func(v minttypes.MinterConfigI) *codectypes.Any {
		a, err := codectypes.NewAnyWithValue(v)
		if err != nil {
			panic(err)
		}
		return a
	}
	var minters []*minttypes.Minter
	sched := model.Schedule{Start: start}
	shape := r.Intn(3)
	desc := ""
	addLinear := func(id uint32, from time.Time, years int) time.Time {
		end := from.AddDate(years, r.Intn(12), r.Intn(28)).Add(time.Duration(r.Intn(86400)) * time.Second)
		a := amt()
		minters = append(minters, &minttypes.Minter{SequenceId: id, EndTime: &end, Config: any(&minttypes.LinearMinting{Amount: sdk.NewIntFromBigInt(a)})})
		sched.Periods = append(sched.Periods, model.Period{Kind: model.Linear, End: &end, Amount: a})
		desc += fmt.Sprintf("L(%dy)", years)
		return end
	}
	addExp := func(id uint32) {
		step := time.Duration(5+r.Intn(86))*365*24*time.Hour + time.Duration(r.Intn(86400))*time.Second
		ms := mults[r.Intn(len(mults))]
		a := amt()
		mr, _ := new(big.Rat).SetString(ms)
		minters = append(minters, &minttypes.Minter{SequenceId: id, Config: any(&minttypes.ExponentialStepMinting{Amount: sdk.NewIntFromBigInt(a), StepDuration: step, AmountMultiplier: sdk.MustNewDecFromStr(ms)})})
		sched.Periods = append(sched.Periods, model.Period{Kind: model.ExponentialStep, Amount: a, Step: step, Mult: mr})
		desc += fmt.Sprintf("E(step %dy x%s)", int(step/(365*24*time.Hour)), ms)
	}
	switch shape {
	case 0:
		addLinear(1, start, 250+r.Intn(351))
		minters = append(minters, &minttypes.Minter{SequenceId: 2, Config: any(&minttypes.NoMinting{})})
		sched.Periods = append(sched.Periods, model.Period{Kind: model.NoMinting})
		desc += "N"
	case 1:
		addExp(1)
	default:
		addLinear(1, start, 300+r.Intn(201))
		addExp(2)
	}
	params := minttypes.Params{MintDenom: denom, StartTime: start, Minters: minters}
	c.Describe("long-horizon", desc, start.UnixNano())
	if err := params.Validate(); err != nil {
		c.Inconclusive("long-horizon probe generated an invalid configuration: %v", err)
		return
	}
	n, err := chain.NewNode(chain.GenesisSpec{Time: gen.Epoch, Minter: minterGenesis(params, gen.Epoch)})
	if err != nil {
		c.Inconclusive("node: %v", err)
		return
	}
	fail := func(err error, t time.Time) {
		if p := asPanic(err); p != nil {
			c.ViolateD("C10/beginblock-panic/long-horizon", p.Stack, "%s panicked at %s: %s", p.Where, fmtTime(t), short(p.Value, 300))
		} else {
			c.Inconclusive("%v", err)
		}
	}
	supply := func() *big.Int { return n.App.BankKeeper.GetSupply(n.Ctx(), denom).Amount.BigInt() }
	cum := new(big.Int)
	eps := big.NewRat(1, 1_000_000)
	hasExp := shape != 0
	// one block: mint, compare the cumulative emission with the schedule
	block := func(t time.Time) (minted *big.Int, ok bool) {
		before := supply()
		if _, err := n.BeginBlock(t); err != nil {
			fail(err, t)
			return nil, false
		}
		minted = new(big.Int).Sub(supply(), before)
		cum.Add(cum, minted)
		c.Count("long_horizon_blocks", 1)
		if prop == "C02" {
			exact := sched.Cum(t)
			want := model.Floor(exact)
			if cum.Cmp(want) != 0 {
				d := new(big.Int).Sub(cum, want)
				if hasExp && model.NearInteger(exact, eps) && d.CmpAbs(big.NewInt(1)) <= 0 {
					c.Count("ambiguous", 1)
				} else {
					key := "C02/schedule-mismatch/long-horizon"
					if oldExponentialPeriod(sched, t) {
						// known finding K2 (see DESIGN section 5): the elapsed time of an exponential
						// period is a time.Duration, which saturates about 292 years after the
						// period's start; the repository's own test pins the resulting amounts
						key = "C02/schedule-mismatch/exponential-period-older-than-292-years"
					}
					c.ViolateD(key, map[string]string{"config": desc, "start": fmtTime(start), "t": fmtTime(t), "params": params.String()},
						"cumulative minted %s != floor(schedule)=%s at %s, %d years after the start (config %s)", cum, want, fmtTime(t), t.Year()-start.Year(), desc)
					return minted, false
				}
			}
		}
		return minted, true
	}
	endBlock := func(t time.Time) bool {
		if _, _, err := n.EndBlock(); err != nil {
			fail(err, t)
			return false
		}
		return true
	}
	t := start
	limit := start.AddDate(700, 0, 0)
	beyondDuration, beyond2262 := false, false
	for i := 0; i < 40 && t.Before(limit); i++ {
		switch r.Intn(4) {
		case 0:
			t = t.Add(time.Duration(1+r.Intn(400)) * 24 * time.Hour)
		case 1:
			t = t.AddDate(1+r.Intn(9), 0, 0)
		default:
			t = t.AddDate(10+r.Intn(60), r.Intn(12), 0)
		}
		t = t.Add(time.Duration(r.Intn(1_000_000_000)))
		if _, ok := block(t); !ok {
			return
		}
		if t.Year()-start.Year() > 293 {
			beyondDuration = true
		}
		if t.Year() > 2262 {
			beyond2262 = true
		}
		// reported inflation vs the emission of a short following interval
		ctx := n.Ctx()
		resp, qerr := n.App.CfeminterKeeper.Inflation(sdk.WrapSDKContext(ctx), &minttypes.QueryInflationRequest{})
		st := n.App.CfeminterKeeper.GetMinterState(ctx)
		S := supply()
		if !endBlock(t) {
			return
		}
		if prop != "C19" {
			continue
		}
		if qerr != nil {
			c.Violate("C19/inflation-query-error", "Inflation query failed at %s: %v", fmtTime(t), qerr)
			return
		}
		dt := time.Duration(1+r.Intn(3600)) * time.Second
		t2 := t.Add(dt)
		// stay inside one period and one step
		idx := int(st.SequenceId) - 1
		if idx < 0 || idx >= len(sched.Periods) {
			continue
		}
		p := sched.Periods[idx]
		pStart := start
		if idx > 0 {
			pStart = *sched.Periods[idx-1].End
		}
		if p.End != nil && !t2.Before(*p.End) {
			continue
		}
		if p.Kind == model.ExponentialStep {
			stepBig := big.NewInt(int64(p.Step))
			n1 := new(big.Int).Quo(model.ElapsedNs(pStart, t), stepBig)
			n2 := new(big.Int).Quo(model.ElapsedNs(pStart, t2), stepBig)
			if n1.Cmp(n2) != 0 {
				continue
			}
		}
		minted, ok := block(t2)
		if !ok {
			return
		}
		st2 := n.App.CfeminterKeeper.GetMinterState(n.Ctx())
		if !endBlock(t2) {
			return
		}
		t = t2
		if st2.SequenceId != st.SequenceId || S.Sign() == 0 {
			continue
		}
		I := decRat(resp.Inflation)
		if p.Kind == model.NoMinting {
			if I.Sign() != 0 {
				c.Violate("C19/nonzero-nominting", "inflation %s in a no-minting period (long horizon)", resp.Inflation)
				return
			}
			continue
		}
		frac := new(big.Rat).SetFrac(big.NewInt(int64(dt)), big.NewInt(yearNs))
		X := new(big.Rat).Mul(I, new(big.Rat).SetInt(S))
		X.Mul(X, frac)
		// slack: one base unit of truncation per block, the 18-digit truncation of the
		// reported rate, and a relative 1e-9 for the decimal arithmetic of the emission
		slack := big.NewRat(2, 1)
		s1 := new(big.Rat).SetInt(new(big.Int).Add(S, big.NewInt(1)))
		s1.Mul(s1, frac)
		s1.Mul(s1, new(big.Rat).SetFrac(big.NewInt(2), new(big.Int).Exp(big.NewInt(10), big.NewInt(18), nil)))
		slack.Add(slack, s1)
		slack.Add(slack, new(big.Rat).Mul(X, big.NewRat(1, 1_000_000_000)))
		diff := new(big.Rat).Sub(new(big.Rat).SetInt(minted), X)
		diff.Abs(diff)
		c.Count("long_horizon_inflation_probes", 1)
		if diff.Cmp(slack) > 0 {
			key := "C19/inflation-vs-emission/long-horizon"
			if oldExponentialPeriod(sched, t2) {
				key = "C19/inflation-vs-emission/exponential-period-older-than-292-years" // known finding K2
			}
			c.ViolateD(key, map[string]string{"config": desc, "start": fmtTime(start), "t": fmtTime(t), "dt": dt.String(), "supply": S.String(), "inflation": resp.Inflation.String(), "minted": minted.String(), "expected": X.FloatString(6), "params": params.String()},
				"minted %s over %s at %s (%d years after the start) but inflation*supply*dt/year = %s (slack %s), period %d of %s", minted, dt, fmtTime(t2), t2.Year()-start.Year(), X.FloatString(3), slack.FloatString(3), idx+1, desc)
			return
		}
	}
	if beyondDuration {
		c.Count("long_horizon_cases_beyond_292_years", 1)
	}
	if beyond2262 {
		c.Count("long_horizon_cases_beyond_year_2262", 1)
	}
	c.Nontrivial(beyondDuration && beyond2262 && cum.Sign() > 0)
}

// oldExponentialPeriod reports whether at t some exponential period of the schedule has been
// running (or ran, up to its end) for more than math.MaxInt64 nanoseconds (about 292.47 years).
func oldExponentialPeriod(s model.Schedule, t time.Time) bool {
	pStart := s.Start
	for _, p := range s.Periods {
		if t.Before(pStart) {
			break
		}
		if p.Kind == model.ExponentialStep {
			until := t
			if p.End != nil && t.After(*p.End) {
				until = *p.End
			}
			if !model.ElapsedNs(pStart, until).IsInt64() {
				return true
			}
		}
		if p.End == nil {
			break
		}
		pStart = *p.End
	}
	return false
}
