package mon

import (
	"strings"

	"verifharness/fw"
	"verifharness/gen"
)

func init() {
	fw.Register(&fw.Monitor{
		ID: "C18", Level: "exploration",
		Rule: "three kinds of cases on the real app. index%3==0: emission configurations (as C02) - the Mint event's amount must equal the sum of bank coinbase events and the supply delta of that BeginBlock. " +
			"index%3==1: sub-distributor configurations with inflows (as C03/C04) - every Distribution/DistributionBurn event must equal the exact model's assignment for that (sub-distributor, destination) and the events of a sub-distributor plus the parts kept on MAIN must add up to its inflow (tolerance 1e-9). " +
			"index%3==2: vesting histories (as C05) - WithdrawAvailable events per pool must equal the growth of that pool's withdrawn counter, none for pools that paid nothing, their sum the coins paid; NewVestingAccountFromVestingPool.amount must equal the growth of sent. " +
			"Non-trivial: mint>0 in >=3 blocks / >=3 distribution events / a withdrawal covering >=2 pools (with an unpaid pool listed between paid ones counted separately). Distinct by configuration/history hash." +
			" Every 8th case runs C14's fault-injection scenario with the event check first: a failed sweep or payout must not be reported as moved coins.",
		Cases:         func(t string) int { return tierN(t, 450, 9000) },
		MinNontrivial: func(t string) int { return tierN(t, 120, 2500) },
		Run:           runC18,
	})
}

func runC18(c *fw.Case) {
	if c.Index%8 == 5 {
		// events under injected transfer failures (C14's configurations and schedules)
		runC14(c)
		c.KeepViolations("C18/")
		c.Count("fault_injection_cases", 1)
		return
	}
	switch c.Index % 3 {
	case 0:
		mc := gen.Minters(c.R, gen.MintDenom(c.R), 36)
		horizon := mc.Horizon(c.R)
		bounds := mc.Schedule.Boundaries(horizon, 40)
		times := gen.Partition(c.R, gen.Epoch, horizon, bounds, c.R.Intn(5), 40)
		c.Describe("mint", mc.Describe(), len(times))
		cum, _, _, _, blocks := c02RunPartition(c, mc, times, 0)
		c.MapViolationKeys(func(k string) string {
			if strings.HasPrefix(k, "C02/mint-event") {
				return "C18" + strings.TrimPrefix(k, "C02")
			}
			return ""
		})
		minted := 0
		for _, b := range blocks {
			if b.Minted != "0" {
				minted++
			}
		}
		c.Nontrivial(cum != nil && cum.Sign() > 0 && minted >= 2)
		c.Count("mint_blocks_checked", int64(len(times)))
		c.Sample(map[string]interface{}{"kind": "mint", "config": mc.Describe(), "blocks": blocks})
	case 1:
		runDistScenario(c, "C18")
	default:
		e := runVestScenario(c, "C18")
		if e == nil {
			return
		}
		c.Nontrivial(e.cov["withdrawals_covering_two_or_more_pools"] > 0 || (e.cov["withdrawals_positive"] > 0 && e.cov["sends_ok"] > 0))
	}
}
