package mon

import (
	"encoding/binary"
	"fmt"
	"math/big"
	"sort"
	"strings"
	"time"

	"verifharness/chain"
	"verifharness/fw"
	"verifharness/gen"

	v120 "github.com/chain4energy/c4e-chain/app/upgrades/v120"
	disttypes "github.com/chain4energy/c4e-chain/x/cfedistributor/types"
	minttypes "github.com/chain4energy/c4e-chain/x/cfeminter/types"
	vestv2 "github.com/chain4energy/c4e-chain/x/cfevesting/migrations/v2"
	vesttypes "github.com/chain4energy/c4e-chain/x/cfevesting/types"
	sdk "github.com/cosmos/cosmos-sdk/types"
	authtypes "github.com/cosmos/cosmos-sdk/x/auth/types"
	vestingtypes "github.com/cosmos/cosmos-sdk/x/auth/vesting/types"
	upgradetypes "github.com/cosmos/cosmos-sdk/x/upgrade/types"
	"google.golang.org/protobuf/encoding/protowire"
)

func init() {
	fw.Register(&fw.Monitor{
		ID: "C16", Level: "exploration",
		Rule: "case = one generated pre-upgrade state staged in the previous formats on the real application (genesis without the interchain-accounts section; module version map set to consensus version 2 for cfevesting/cfeminter/cfedistributor; legacy parameters written into the x/params subspaces and the new params keys deleted; vesting pools rewritten in the v2 store encoding, traces under the v2 keys), " +
			"then the registered v1.2.0 handler is run through UpgradeKeeper.ApplyUpgrade (RunMigrations, trace update, validators-pool split, account shift). Generated: 0-300 pool owners with 1-3 pools and arbitrary sent/withdrawn history; hard-coded validators-pool owner present/absent, with/without 'Validators pool' / 'Advisors pool', 'Validators' type present/absent, " +
			"validators pool locked in {0, sum-1, sum, sum+1, huge} with non-zero sent/withdrawn, new pool names already taken; the four hard-coded accounts absent / base / continuous / delayed; legacy minter configurations of all kinds and generated sub-distributors. " +
			"Oracle: handler does not panic or fail; total locked and every pool's sent/withdrawn unchanged; module balance == pools and pool bounds; split applied completely (4 new pools with the constants' amounts, validators pool reduced by their sum and renamed) or not at all; shifted accounts keep amounts and move start/end by exactly one calendar year; " +
			"migrated minter/distributor params validate and equal the legacy ones field for field; no pool or trace disappears. Non-trivial: hard-coded owner present with >=2 pools and >=20 other owners. Distinct by state hash." +
			" Also: legacy pool records hand-encoded in the v1.1.0 wire format, owners without pools, shuffled legacy emission periods, names of new vesting types already taken (types all-or-nothing), the upgrade run twice for determinism (every 4th state); every 8th case probes the cfevesting version 1->2 store migration on a store staged from pool histories, every 16th the distributor's version 1->2 parameter migration.",
		Cases:         func(t string) int { return tierN(t, 480, 8000) },
		MinNontrivial: func(t string) int { return tierN(t, 60, 600) },
		Run:           runC16,
	})
}

var c16Sum = big.NewInt(0).Mul(big.NewInt(15000000+8000000+9000000+40000000), big.NewInt(1000000))

func runC16(c *fw.Case) {
	if c.Property == "C16" && c.Index%8 == 5 {
		c16V1Probe(c)
		return
	}
	if c.Property == "C16" && c.Index%16 == 3 {
		c16DistV1Probe(c)
		return
	}
	r := c.R
	nOwners := []int{0, 1, 5, 25, 25, 40, 60, 60, 150, 300}[r.Intn(10)]
	if c.Tier != "thorough" && nOwners > 150 {
		nOwners = 150
	}
	withOwner := r.Intn(4) > 0
	withValidatorsPool := r.Intn(5) > 0
	withAdvisors := r.Intn(2) == 0
	withValidatorsType := r.Intn(5) > 0
	namesTaken := r.Intn(6) == 0
	// the monitors that borrow this staging (C05, C11, C17) are after what the upgrade does when
	// it does split the validators pool: three quarters of their states make sure it does
	favourSplit := c.Property != "C16" && r.Intn(4) > 0
	if favourSplit {
		withOwner, withValidatorsPool, withValidatorsType = true, true, true
		withAdvisors = r.Intn(4) > 0
	}
	c.Describe(nOwners, withOwner, withValidatorsPool, withAdvisors, withValidatorsType, namesTaken)

	// ---- vesting types and pools (staged through genesis in the new format, rewritten below) ----
	gts := []vesttypes.GenesisVestingType{{Name: "Advisors", LockupPeriod: 1, LockupPeriodUnit: "day", VestingPeriod: 2, VestingPeriodUnit: "day", Free: sdk.ZeroDec()},
		{Name: "Other", LockupPeriod: 3, LockupPeriodUnit: "hour", VestingPeriod: 5, VestingPeriodUnit: "hour", Free: sdk.MustNewDecFromStr("0.1")}}
	if withValidatorsType {
		gts = append(gts, vesttypes.GenesisVestingType{Name: "Validators", LockupPeriod: 10, LockupPeriodUnit: "day", VestingPeriod: 20, VestingPeriodUnit: "day", Free: sdk.MustNewDecFromStr("0.05")})
	}
	if r.Intn(6) == 0 {
		// the name of one of the vesting types the upgrade introduces is already in use
		taken := []string{"VC round", "Early-bird round", "Public round", "Strategic reserve short term round", "Validator round"}[r.Intn(5)]
		gts = append(gts, vesttypes.GenesisVestingType{Name: taken, LockupPeriod: 7, LockupPeriodUnit: "hour", VestingPeriod: 9, VestingPeriodUnit: "hour", Free: sdk.MustNewDecFromStr("0.5")})
		c.Count("new_vesting_type_names_already_taken", 1)
	}
	typeNames := []string{"Advisors", "Other"}
	mkPool := func(name, vt string, locked *big.Int) *vesttypes.VestingPool {
		sent := new(big.Int).Rand(r, big.NewInt(1_000_000_000))
		wd := new(big.Int).Rand(r, big.NewInt(1_000_000_000))
		if r.Intn(3) == 0 {
			sent, wd = big.NewInt(0), big.NewInt(0)
		}
		il := new(big.Int).Add(new(big.Int).Add(locked, sent), wd)
		ls := gen.Epoch.Add(-time.Duration(r.Intn(1000)) * time.Hour)
		return &vesttypes.VestingPool{Name: name, VestingType: vt, LockStart: ls, LockEnd: ls.Add(time.Duration(1+r.Intn(20000)) * time.Hour),
			InitiallyLocked: sdk.NewIntFromBigInt(il), Withdrawn: sdk.NewIntFromBigInt(wd), Sent: sdk.NewIntFromBigInt(sent)}
	}
	var avps []*vesttypes.AccountVestingPools
	var accs []chain.GenAccount
	for i := 0; i < nOwners; i++ {
		k := chain.NewKey(fmt.Sprintf("c16-owner-%d-%d", c.Index, i))
		accs = append(accs, chain.GenAccount{Account: authtypes.NewBaseAccount(k.Addr, nil, 0, 0)})
		avp := &vesttypes.AccountVestingPools{Owner: k.Bech()}
		nPools := 1 + r.Intn(3)
		if r.Intn(8) == 0 {
			nPools = 0 // an owner entry without pools, somewhere in the key order
			c.Count("legacy_owner_entries_without_pools", 1)
		}
		for j := 0; j < nPools; j++ {
			avp.VestingPools = append(avp.VestingPools, mkPool(fmt.Sprintf("pool%d", j), typeNames[r.Intn(2)], gen.BigAmount(r, 18)))
		}
		avps = append(avps, avp)
		if r.Intn(12) == 0 {
			// the legacy store is keyed by the owner string as it was written (a genesis file
			// may spell an address in upper case): a second entry of the same address
			up := &vesttypes.AccountVestingPools{Owner: strings.ToUpper(k.Bech())}
			for j := 0; j < 1+r.Intn(2); j++ {
				up.VestingPools = append(up.VestingPools, mkPool(fmt.Sprintf("upool%d", j), typeNames[r.Intn(2)], gen.BigAmount(r, 18)))
			}
			avps = append(avps, up)
			c.Count("owners_in_two_spellings", 1)
		}
	}
	var valLocked *big.Int
	if withOwner {
		oaddr := sdk.MustAccAddressFromBech32(v120.ValidatorsVestingPoolOwner)
		accs = append(accs, chain.GenAccount{Account: authtypes.NewBaseAccount(oaddr, nil, 0, 0)})
		avp := &vesttypes.AccountVestingPools{Owner: v120.ValidatorsVestingPoolOwner}
		if withValidatorsPool {
			pick := r.Intn(6)
			if favourSplit && pick < 2 {
				pick = 2 + r.Intn(4)
			}
			switch pick {
			case 0:
				valLocked = big.NewInt(0)
			case 1:
				valLocked = new(big.Int).Sub(c16Sum, big.NewInt(1))
			case 2:
				valLocked = new(big.Int).Set(c16Sum)
			case 3:
				valLocked = new(big.Int).Add(c16Sum, big.NewInt(1))
			default:
				valLocked = new(big.Int).Add(c16Sum, gen.BigAmount(r, 20))
			}
			vt := "Other"
			if withValidatorsType {
				vt = "Validators"
			}
			avp.VestingPools = append(avp.VestingPools, mkPool("Validators pool", vt, valLocked))
		}
		if withAdvisors {
			avp.VestingPools = append(avp.VestingPools, mkPool("Advisors pool", "Advisors", gen.BigAmount(r, 16)))
		}
		if namesTaken {
			avp.VestingPools = append(avp.VestingPools, mkPool("VC round pool", "Other", gen.BigAmount(r, 12)))
		}
		if r.Intn(4) > 0 {
			// a pool the owner created himself, now and then of the very type the upgrade renames
			extraType := "Other"
			if withValidatorsType && r.Intn(2) == 0 {
				extraType = "Validators"
			}
			avp.VestingPools = append(avp.VestingPools, mkPool("extra", extraType, gen.BigAmount(r, 12)))
		}
		// the pools are listed in any order
		r.Shuffle(len(avp.VestingPools), func(i, j int) { avp.VestingPools[i], avp.VestingPools[j] = avp.VestingPools[j], avp.VestingPools[i] })
		if len(avp.VestingPools) > 0 {
			avps = append(avps, avp)
		}
	}
	// the four accounts whose schedule is shifted
	shiftPre := map[string]*vestingtypes.ContinuousVestingAccount{}
	for i, a := range []string{v120.Account1, v120.Account2, v120.Account3, v120.Account4} {
		addr := sdk.MustAccAddressFromBech32(a)
		switch (r.Intn(4) + i) % 4 {
		case 0: // absent
		case 1:
			accs = append(accs, chain.GenAccount{Account: authtypes.NewBaseAccount(addr, nil, 0, 0), Coins: sdk.NewCoins(sdk.NewCoin(vDenom, sdk.NewInt(5)))})
		case 2:
			ov := sdk.NewCoins(sdk.NewCoin(vDenom, sdk.NewIntFromBigInt(new(big.Int).Add(gen.BigAmount(r, 18), big.NewInt(1)))))
			st := gen.Epoch.Add(time.Duration(r.Intn(20000)-10000) * time.Hour)
			if r.Intn(3) == 0 {
				st = time.Date(2028, 2, 29, 12, 0, 0, 0, time.UTC) // leap day
			}
			en := st.Add(time.Duration(1+r.Intn(30000)) * time.Hour)
			cva := vestingtypes.NewContinuousVestingAccountRaw(vestingtypes.NewBaseVestingAccount(authtypes.NewBaseAccount(addr, nil, 0, 0), ov, en.Unix()), st.Unix())
			if r.Intn(2) == 0 {
				// the account has staked: part of its vesting and some free coins are delegated
				dv := new(big.Int).Rand(r, new(big.Int).Add(ov.AmountOf(vDenom).BigInt(), big.NewInt(1)))
				if dv.Sign() > 0 {
					cva.DelegatedVesting = sdk.NewCoins(sdk.NewCoin(vDenom, sdk.NewIntFromBigInt(dv)))
				}
				cva.DelegatedFree = sdk.NewCoins(sdk.NewCoin(vDenom, sdk.NewInt(int64(1+r.Intn(1000000)))))
			}
			accs = append(accs, chain.GenAccount{Account: cva, Coins: ov})
			shiftPre[a] = cva
		case 3:
			ov := sdk.NewCoins(sdk.NewCoin(vDenom, sdk.NewInt(777)))
			accs = append(accs, chain.GenAccount{Account: vestingtypes.NewDelayedVestingAccount(authtypes.NewBaseAccount(addr, nil, 0, 0), ov, gen.Epoch.Add(1000*time.Hour).Unix()), Coins: ov})
		}
	}
	// traces (a few of the listed genesis addresses plus owners' recipients)
	var traces []vesttypes.VestingAccountTrace
	traceAddrs := []string{"c4e1z5h0squtynr8rhwl0mzqdcd0wgmfyvpqmx3y2r", "c4e13e303u43k7mng4927axuhve0plgsyxc4xky63k", v120.Account1}
	for i := 0; i < r.Intn(12); i++ {
		traceAddrs = append(traceAddrs, chain.NewKey(fmt.Sprintf("c16-traced-%d", i)).Bech())
	}
	for i, a := range traceAddrs {
		traces = append(traces, vesttypes.VestingAccountTrace{Id: uint64(i), Address: a})
	}
	// the legacy vesting denomination need not be the default one
	vd := vDenom
	if r.Intn(4) == 0 {
		vd = "utok"
	}
	vg := &vesttypes.GenesisState{Params: vesttypes.Params{Denom: vd}, VestingTypes: gts, AccountVestingPools: avps, VestingAccountTraces: traces, VestingAccountTraceCount: uint64(len(traces))}
	mc := gen.Minters(r, "uc4e", 28)
	dk := newDistKeys()
	sds := gen.SubDistributors(r, distOpts(dk, false))
	if sds == nil {
		sds = disttypes.DefaultParams().SubDistributors
	}
	// period ids need not start at 1 (the rule is: first id > 0, then consecutive)
	idOffset := []uint32{0, 0, 0, 1, 2, 7}[r.Intn(6)]
	for _, m := range mc.Sorted {
		m.SequenceId += idOffset
	}
	mgen := minterGenesis(mc.Params, gen.Epoch)
	n, err := chain.NewNode(chain.GenesisSpec{Time: gen.Epoch, Accounts: accs, Vesting: vg, Minter: mgen, Distributor: &disttypes.GenesisState{Params: disttypes.Params{SubDistributors: cloneSubs(sds)}}, OmitICA: true})
	if err != nil {
		if p := asPanic(err); p != nil {
			// the staged genesis is consistent by construction (module account funded with exactly
			// what the pools lock): the application has no reason to refuse it
			c.ViolateD("C16/initchain-panic", map[string]string{"owners": fmt.Sprint(nOwners), "stack": short(p.Stack, 3000)}, "InitChain of a consistent genesis with %d pool owners panicked: %s", nOwners, short(p.Value, 300))
			c.ViolateD("C05/initchain-panic", map[string]string{"owners": fmt.Sprint(nOwners), "stack": short(p.Stack, 3000)}, "InitChain of a consistent genesis with %d pool owners panicked: %s", nOwners, short(p.Value, 300))
			return
		}
		c.Inconclusive("staging genesis: %v", err)
		return
	}
	ctx := n.Ctx().WithBlockHeight(100).WithBlockTime(gen.Epoch.Add(time.Hour))
	app := n.App
	// ---- rewrite to the previous formats ----
	vstore := ctx.KVStore(app.GetKey(vesttypes.StoreKey))
	for _, avp := range avps {
		old := vestv2.AccountVestingPools{Address: avp.Owner}
		for _, p := range avp.VestingPools {
			old.VestingPools = append(old.VestingPools, &vestv2.VestingPool{Name: p.Name, VestingType: p.VestingType, LockStart: p.LockStart, LockEnd: p.LockEnd, InitiallyLocked: p.InitiallyLocked, Withdrawn: p.Withdrawn, Sent: p.Sent})
		}
		bz, err := old.Marshal()
		if err != nil {
			c.Inconclusive("marshal v2 pool: %v", err)
			return
		}
		// the bytes a v1.1.0 node wrote, encoded here field by field (the legacy format is
		// frozen; the repository's copy of its generated code is only used to cross-check)
		hand := c16EncodeLegacyPools(avp)
		if string(hand) == string(bz) {
			c.Count("legacy_pool_records_cross_checked", 1)
		} else {
			c.Count("legacy_pool_records_differing_from_the_repository_copy", 1)
		}
		vstore.Set(append(append([]byte{}, vestv2.AccountVestingPoolsKeyPrefix...), []byte(avp.Owner)...), hand)
	}
	for _, t := range traces {
		vstore.Delete(append([]byte(vesttypes.VestingAccountTraceKey), []byte(t.Address)...))
		old := vestv2.VestingAccount{Id: t.Id, Address: t.Address}
		bz, _ := old.Marshal()
		idb := make([]byte, 8)
		binary.BigEndian.PutUint64(idb, t.Id)
		vstore.Set(append([]byte(vestv2.VestingAccountKey), idb...), bz)
	}
	vstore.Delete([]byte(vesttypes.VestingAccountTraceCountKey))
	cnt := make([]byte, 8)
	binary.BigEndian.PutUint64(cnt, uint64(len(traces)))
	vstore.Set([]byte(vestv2.VestingAccountCountKey), cnt)
	vstore.Delete(vesttypes.ParamsKey)
	ctx.KVStore(app.GetKey(minttypes.StoreKey)).Delete(minttypes.ParamsKey)
	ctx.KVStore(app.GetKey(disttypes.StoreKey)).Delete(disttypes.ParamsKey)
	// legacy params in x/params
	legacyMinter := minttypes.LegacyParams{MintDenom: mc.Params.MintDenom, MinterConfig: minttypes.MinterConfig{StartTime: mc.Params.StartTime}}
	for _, m := range mc.Sorted {
		lm := &minttypes.LegacyMinter{SequenceId: m.SequenceId, EndTime: m.EndTime}
		switch cfg := m.Config.GetCachedValue().(type) {
		case *minttypes.LinearMinting:
			lm.Type, lm.LinearMinting = minttypes.LinearMintingType, cfg
		case *minttypes.ExponentialStepMinting:
			lm.Type, lm.ExponentialStepMinting = minttypes.ExponentialStepMintingType, cfg
		default:
			lm.Type = minttypes.NoMintingType
		}
		legacyMinter.MinterConfig.Minters = append(legacyMinter.MinterConfig.Minters, lm)
	}
	// one staged state in ten carries legacy sub-distributors that do not satisfy today's rules
	// (the legacy store was never validated against them): the upgrade may refuse to run, but it
	// must not report success and leave parameters behind that fail validation
	legacySds := cloneSubs(sds)
	invalidLegacy := ""
	if r.Intn(10) == 0 && len(legacySds) > 0 {
		switch r.Intn(3) {
		case 0:
			legacySds[0].Destinations.BurnShare = sdk.NewDecWithPrec(15, 1) // shares on another scale
			invalidLegacy = "burn share 1.5"
		case 1:
			dup := cloneSubs(legacySds[:1])[0]
			legacySds = append(legacySds, dup)
			invalidLegacy = "duplicate sub-distributor"
		default:
			last := cloneSubs(legacySds[len(legacySds)-1:])[0]
			last.Name = "dangling"
			last.Destinations.Shares = nil
			last.Destinations.PrimaryShare = disttypes.Account{Type: disttypes.InternalAccount, Id: "never-drained"}
			legacySds = append(legacySds, last)
			invalidLegacy = "internal account never drained"
		}
		if (disttypes.Params{SubDistributors: legacySds}).Validate() == nil {
			legacySds, invalidLegacy = cloneSubs(sds), ""
		}
	}
	// ... and one in twelve an emission schedule that breaks them (the last period has an end)
	invalidLegacyMinter := false
	if invalidLegacy == "" && r.Intn(12) == 0 && len(legacyMinter.MinterConfig.Minters) > 0 {
		lastM := *legacyMinter.MinterConfig.Minters[len(legacyMinter.MinterConfig.Minters)-1]
		end := gen.Epoch.Add(100 * 365 * 24 * time.Hour)
		lastM.EndTime = &end
		legacyMinter.MinterConfig.Minters[len(legacyMinter.MinterConfig.Minters)-1] = &lastM
		invalidLegacyMinter = true
		invalidLegacy = "last emission period has an end time"
	}
	// the previous version accepted the emission periods in any stored order (its validation
	// sorted them): one valid staged state in three keeps them in a shuffled order
	shuffledLegacyMinter := false
	if !invalidLegacyMinter && len(legacyMinter.MinterConfig.Minters) >= 3 && r.Intn(3) == 0 {
		ms := legacyMinter.MinterConfig.Minters
		r.Shuffle(len(ms), func(i, j int) { ms[i], ms[j] = ms[j], ms[i] })
		shuffledLegacyMinter = true
		c.Count("legacy_minter_periods_stored_out_of_order", 1)
	}
	stageErr := func() (err error) {
		defer func() {
			if rec := recover(); rec != nil {
				err = fmt.Errorf("staging legacy params panicked: %v", rec)
			}
		}()
		ms := app.GetSubspace(minttypes.ModuleName)
		if !ms.HasKeyTable() {
			ms = ms.WithKeyTable(minttypes.ParamKeyTable())
		}
		if invalidLegacyMinter || shuffledLegacyMinter {
			// SetParamSet would run the legacy validation, which sorts the staged slice in place
			ms.Set(ctx, minttypes.KeyMintDenom, legacyMinter.MintDenom)
			ms.Set(ctx, minttypes.KeyMinterConfig, legacyMinter.MinterConfig)
		} else {
			ms.SetParamSet(ctx, &legacyMinter)
		}
		ds := app.GetSubspace(disttypes.ModuleName)
		if !ds.HasKeyTable() {
			ds = ds.WithKeyTable(disttypes.ParamKeyTable())
		}
		if invalidLegacy != "" {
			// written the way the previous version stored whatever it had been given
			ds.Set(ctx, disttypes.KeySubDistributors, cloneSubs(legacySds))
		} else {
			dp := disttypes.Params{SubDistributors: cloneSubs(legacySds)}
			ds.SetParamSet(ctx, &dp)
		}
		vs := app.GetSubspace(vesttypes.ModuleName)
		if !vs.HasKeyTable() {
			vs = vs.WithKeyTable(vesttypes.ParamKeyTable())
		}
		vp := vesttypes.Params{Denom: vd}
		vs.SetParamSet(ctx, &vp)
		return nil
	}()
	if stageErr != nil {
		c.Inconclusive("%v", stageErr)
		return
	}
	vm := app.UpgradeKeeper.GetModuleVersionMap(ctx)
	vm[vesttypes.ModuleName], vm[minttypes.ModuleName], vm[disttypes.ModuleName] = 2, 2, 2
	app.UpgradeKeeper.SetModuleVersionMap(ctx, vm)

	// ---- pre-state facts ----
	type pk struct{ owner, name string }
	prePools := map[pk]*vesttypes.VestingPool{}
	totalLocked := new(big.Int)
	for _, avp := range avps {
		for _, p := range avp.VestingPools {
			prePools[pk{strings.ToLower(avp.Owner), p.Name}] = p // owners compared by address, not by spelling
			totalLocked.Add(totalLocked, p.GetCurrentlyLocked().BigInt())
		}
	}
	c.Describe(totalLocked.String(), len(prePools)) // distinct by staged state, not only by its shape
	// ---- run the registered upgrade handler ----
	// the node that runs the upgrade lives in some time zone; the result must not depend on it
	zone := []string{"UTC", "America/New_York", "Europe/Warsaw", "Pacific/Kiritimati", "America/St_Johns", "Australia/Lord_Howe"}[c.Index%6]
	oldLocal := time.Local
	if loc, lerr := time.LoadLocation(zone); lerr == nil {
		time.Local = loc
	}
	typesBefore := map[string]string{}
	for _, vt := range app.CfevestingKeeper.GetAllVestingTypes(ctx).VestingTypes {
		typesBefore[vt.Name] = vt.String()
	}
	// the upgrade writes the same bytes wherever it runs: a first run on a branch of the state
	// that is thrown away, the real one afterwards, the hard-coded owner's record compared
	var ownerRecordOnBranch []byte
	branchRan := false
	if c.Index%4 == 1 {
		bctx, _ := ctx.CacheContext()
		if p := safeCall("ApplyUpgrade", func() { app.UpgradeKeeper.ApplyUpgrade(bctx, upgradetypes.Plan{Name: v120.UpgradeName, Height: 100}) }); p == nil {
			branchRan = true
			ownerRecordOnBranch = append([]byte{}, bctx.KVStore(app.GetKey(vesttypes.StoreKey)).Get(append(append([]byte{}, vesttypes.AccountVestingPoolsKeyPrefix...), []byte(v120.ValidatorsVestingPoolOwner)...))...)
		}
	}
	pUp := safeCall("ApplyUpgrade", func() { app.UpgradeKeeper.ApplyUpgrade(ctx, upgradetypes.Plan{Name: v120.UpgradeName, Height: 100}) })
	time.Local = oldLocal
	if p := pUp; p != nil {
		if invalidLegacy != "" {
			c.Count("upgrades_refused_for_invalid_legacy_params", 1)
			return
		}
		c.ViolateD("C16/upgrade-panic/"+panicKey(p.Stack), map[string]string{"panic": short(p.Value, 500), "stack": short(p.Stack, 3000)}, "the v1.2.0 upgrade handler panicked / failed: %s", short(p.Value, 300))
		return
	}
	if invalidLegacy != "" {
		c.Count("upgrades_run_with_invalid_legacy_params", 1)
	}
	c.Count("upgrades_run", 1)
	if branchRan {
		real := ctx.KVStore(app.GetKey(vesttypes.StoreKey)).Get(append(append([]byte{}, vesttypes.AccountVestingPoolsKeyPrefix...), []byte(v120.ValidatorsVestingPoolOwner)...))
		c.Count("upgrades_run_twice_for_determinism", 1)
		if string(real) != string(ownerRecordOnBranch) {
			c.Violate("C16/upgrade-not-deterministic", "two runs of the v1.2.0 upgrade on the same state stored different bytes for the pools of the hard-coded owner")
			c.Violate("C11/upgrade-not-deterministic", "two runs of the v1.2.0 upgrade on the same state stored different bytes for the pools of the hard-coded owner: replicas leave the upgrade block with different state hashes")
		}
	}
	// ---- post-state ----
	postAll := app.CfevestingKeeper.GetAllAccountVestingPools(ctx)
	post := map[pk]*vesttypes.VestingPool{}
	postLocked := new(big.Int)
	dupNames := false
	for _, avp := range postAll {
		for _, p := range avp.VestingPools {
			if _, dup := post[pk{strings.ToLower(avp.Owner), p.Name}]; dup {
				dupNames = true
			}
			post[pk{strings.ToLower(avp.Owner), p.Name}] = p
			postLocked.Add(postLocked, p.GetCurrentlyLocked().BigInt())
			if p.Withdrawn.IsNegative() || p.Sent.IsNegative() || p.Withdrawn.Add(p.Sent).GT(p.InitiallyLocked) {
				c.Violate("C16/pool-bounds", "after the upgrade pool %s of %s has initially_locked=%s sent=%s withdrawn=%s", p.Name, short(avp.Owner, 12), p.InitiallyLocked, p.Sent, p.Withdrawn)
			}
		}
	}
	if dupNames {
		c.Count("states_with_duplicate_pool_names_after_upgrade", 1)
	}
	if postLocked.Cmp(totalLocked) != 0 {
		c.ViolateD("C16/total-locked-changed", map[string]string{"before": totalLocked.String(), "after": postLocked.String()}, "total locked over all pools changed from %s to %s", totalLocked, postLocked)
	}
	if got := app.CfevestingKeeper.GetParams(ctx).Denom; got != vd {
		c.Violate("C16/vesting-denom-changed", "the vesting denomination was %s before the upgrade and is %s after it", vd, got)
		c.Violate("C05/upgrade-vesting-denom-changed", "the vesting denomination was %s before the v1.2.0 upgrade and is %s after it: the pools are now counted in a denomination the module account does not hold", vd, got)
	}
	modBal := app.BankKeeper.GetBalance(ctx, authtypes.NewModuleAddress(vesttypes.ModuleName), vd).Amount.BigInt()
	if modBal.Cmp(postLocked) != 0 {
		c.Violate("C16/module-balance-vs-pools", "after the upgrade the vesting module account holds %s but pools lock %s", modBal, postLocked)
		c.Violate("C05/upgrade-module-balance-vs-pools", "after the v1.2.0 upgrade the vesting module account holds %s but pools lock %s", modBal, postLocked)
	}
	splitApplied := post[pk{v120.ValidatorsVestingPoolOwner, "Validator round pool"}] != nil && prePools[pk{v120.ValidatorsVestingPoolOwner, "Validator round pool"}] == nil
	newNames := map[string]*big.Int{"VC round pool": big.NewInt(15000000_000000), "Early-bird round pool": big.NewInt(8000000_000000), "Public round pool": big.NewInt(9000000_000000), "Strategic reserve short term round pool": big.NewInt(40000000_000000)}
	for key, pp := range prePools {
		name := key.name
		if splitApplied && key.owner == v120.ValidatorsVestingPoolOwner && name == "Validators pool" {
			name = "Validator round pool"
		}
		np := post[pk{key.owner, name}]
		if np == nil {
			c.ViolateD("C16/pool-missing", map[string]string{"owner": key.owner, "pool": key.name}, "pool %s of %s is missing after the upgrade", key.name, short(key.owner, 14))
			continue
		}
		if dupNames && key.owner == v120.ValidatorsVestingPoolOwner {
			continue // duplicate names make the per-name comparison ambiguous for that owner
		}
		if !np.Sent.Equal(pp.Sent) || !np.Withdrawn.Equal(pp.Withdrawn) {
			c.ViolateD("C16/pool-history-changed", map[string]string{"owner": key.owner, "pool": key.name}, "pool %s: sent/withdrawn changed from %s/%s to %s/%s", key.name, pp.Sent, pp.Withdrawn, np.Sent, np.Withdrawn)
		}
		wantIL := pp.InitiallyLocked.BigInt()
		if splitApplied && key.owner == v120.ValidatorsVestingPoolOwner && key.name == "Validators pool" {
			wantIL = new(big.Int).Sub(wantIL, c16Sum)
		}
		if np.InitiallyLocked.BigInt().Cmp(wantIL) != 0 {
			c.ViolateD("C16/pool-amount-changed", map[string]string{"owner": key.owner, "pool": key.name}, "pool %s: initially locked %s after the upgrade, expected %s", key.name, np.InitiallyLocked, wantIL)
		}
		if !np.LockStart.Equal(pp.LockStart) || !np.LockEnd.Equal(pp.LockEnd) {
			c.Violate("C16/pool-lock-times-changed", "pool %s: lock start/end changed", key.name)
		}
	}
	// split: completely or not at all
	if withOwner && !dupNames {
		present := 0
		for nm, amt := range newNames {
			if prePools[pk{v120.ValidatorsVestingPoolOwner, nm}] != nil {
				continue
			}
			if p := post[pk{v120.ValidatorsVestingPoolOwner, nm}]; p != nil {
				present++
				if p.InitiallyLocked.BigInt().Cmp(amt) != 0 || !p.Sent.IsZero() || !p.Withdrawn.IsZero() {
					c.Violate("C16/split-pool-amount", "new pool %s has initially_locked=%s sent=%s withdrawn=%s, expected %s/0/0", nm, p.InitiallyLocked, p.Sent, p.Withdrawn, amt)
				}
			}
		}
		expected := 0
		if splitApplied {
			expected = 4
			if namesTaken {
				expected = 3
			}
		}
		if !namesTaken && present != expected {
			c.Violate("C16/split-partial", "validators-pool split applied=%v but %d of the 4 new pools exist", splitApplied, present)
		}
		shouldSplit := withValidatorsPool && withValidatorsType && valLocked != nil && valLocked.Cmp(c16Sum) >= 0
		if shouldSplit {
			c.Count("splits_expected", 1)
		}
		if splitApplied {
			c.Count("splits_applied", 1)
		}
	}
	if !splitApplied {
		// "completely or not at all" covers the vesting types too: without the split the types
		// are what they were (the upgrade renames and adds types only as part of the split)
		typesAfter := map[string]string{}
		for _, vt := range app.CfevestingKeeper.GetAllVestingTypes(ctx).VestingTypes {
			typesAfter[vt.Name] = vt.String()
		}
		for name, before := range typesBefore {
			if typesAfter[name] != before {
				c.ViolateD("C16/split-partial-types", map[string]string{"before": before, "after": typesAfter[name]}, "the validators pool was not split, but vesting type %q was changed or removed by the upgrade", name)
			}
		}
		for name := range typesAfter {
			if _, had := typesBefore[name]; !had {
				c.Violate("C16/split-partial-types", "the validators pool was not split, but the upgrade added vesting type %q", name)
			}
		}
	}
	// shifted accounts
	for a, pre := range shiftPre {
		acc, ok := app.AccountKeeper.GetAccount(ctx, sdk.MustAccAddressFromBech32(a)).(*vestingtypes.ContinuousVestingAccount)
		if !ok {
			c.Violate("C16/shifted-account-type", "account %s is no longer a continuous vesting account", a)
			continue
		}
		wantS := time.Unix(pre.StartTime, 0).UTC().AddDate(1, 0, 0).Unix()
		wantE := time.Unix(pre.EndTime, 0).UTC().AddDate(1, 0, 0).Unix()
		if !acc.OriginalVesting.IsEqual(pre.OriginalVesting) || !acc.DelegatedVesting.IsEqual(pre.DelegatedVesting) || !acc.DelegatedFree.IsEqual(pre.DelegatedFree) {
			c.Violate("C16/shifted-account-amounts", "account %s: vesting amounts changed by the upgrade", a)
		}
		if acc.StartTime != wantS || acc.EndTime != wantE {
			c.Violate("C16/shifted-account-schedule", "account %s: schedule [%d,%d] after the upgrade on a node in time zone %s, expected [%d,%d] (one calendar year later, as a node in UTC computes it)", a, acc.StartTime, acc.EndTime, zone, wantS, wantE)
		}
		c.Count("shifted_accounts_checked", 1)
	}
	// traces
	seen := map[string]bool{}
	for _, t := range app.CfevestingKeeper.GetAllVestingAccountTrace(ctx) {
		seen[t.Address] = true
	}
	for _, a := range traceAddrs {
		if !seen[a] {
			c.Violate("C16/trace-missing", "trace of %s is missing after the upgrade", a)
		}
	}
	// lineage recorded by the upgrade (C17 on the upgrade path): the staged trace of a listed
	// genesis address is marked genesis, that of a listed pool recipient from-genesis-pool,
	// every other staged trace stays unmarked
	for _, t := range app.CfevestingKeeper.GetAllVestingAccountTrace(ctx) {
		wantGenesis := c16ListedGenesis[t.Address]
		wantFromPool := c16ListedFromPool[t.Address]
		if t.Genesis != wantGenesis || t.FromGenesisPool != wantFromPool || t.FromGenesisAccount {
			c.ViolateD("C17/upgrade-lineage-flags", map[string]string{"trace": t.String()}, "after the upgrade the trace of %s has genesis=%v from_genesis_pool=%v from_genesis_account=%v, expected genesis=%v from_genesis_pool=%v", t.Address, t.Genesis, t.FromGenesisPool, t.FromGenesisAccount, wantGenesis, wantFromPool)
		}
		c.Count("upgrade_lineage_flags_checked", 1)
	}
	// ... and the pools it is documented to mark as genesis pools (when the split is applied:
	// the renamed validators pool, the four new pools and the advisors pool, wherever listed)
	if splitApplied {
		for _, avp := range postAll {
			if avp.Owner != v120.ValidatorsVestingPoolOwner {
				continue
			}
			for _, p := range avp.VestingPools {
				switch p.Name {
				case "Validator round pool", "VC round pool", "Early-bird round pool", "Public round pool", "Strategic reserve short term round pool", "Advisors pool":
					if !p.GenesisPool && !(p.Name == "VC round pool" && namesTaken) {
						c.Violate("C17/upgrade-pool-flags", "after the upgrade pool %q of the hard-coded owner is not marked as genesis pool", p.Name)
					}
					c.Count("upgrade_pool_flags_checked", 1)
				default:
					// ... and no other: a pool the owner created himself does not become a genesis
					// pool (everything sent from it would be recorded as genesis-derived)
					if p.GenesisPool {
						c.Violate("C17/upgrade-pool-flags", "after the upgrade pool %q (type %s) of the hard-coded owner is marked as genesis pool", p.Name, p.VestingType)
					}
				}
			}
		}
	}
	if got := app.CfevestingKeeper.GetVestingAccountTraceCount(ctx); got != uint64(len(traces)) {
		c.Violate("C16/trace-count", "trace count %d after the upgrade, %d before", got, len(traces))
	}
	// params
	mp := app.CfeminterKeeper.GetParams(ctx)
	if v := minterRulesViolation(mp); v != "" {
		c.Violate("C16/minter-params-invalid", "migrated minter params break a validation rule (legacy: %s): %s", invalidLegacy, v)
	}
	if err := mp.Validate(); err != nil {
		c.Violate("C16/minter-params-invalid", "migrated minter params fail validation: %v", err)
	}
	if mp.MintDenom != mc.Params.MintDenom || !mp.StartTime.Equal(mc.Params.StartTime) || len(mp.Minters) != len(mc.Sorted) {
		c.Violate("C16/minter-params-changed", "migrated minter params differ from the legacy ones (denom/start/period count)")
	} else {
		bySeq := map[uint32]*minttypes.Minter{}
		for _, o := range mc.Sorted {
			bySeq[o.SequenceId] = o
		}
		for _, m := range mp.Minters {
			o := bySeq[m.SequenceId] // the same schedule, in whatever order the periods are stored
			if o == nil {
				c.Violate("C16/minter-params-changed", "migrated minter period %d does not exist in the legacy params", m.SequenceId)
				continue
			}
			delete(bySeq, m.SequenceId)
			same := m.SequenceId == o.SequenceId && ((m.EndTime == nil) == (o.EndTime == nil)) && (m.EndTime == nil || m.EndTime.Equal(*o.EndTime)) && m.Config != nil && m.Config.TypeUrl == o.Config.TypeUrl
			if same {
				switch cfg := m.Config.GetCachedValue().(type) {
				case *minttypes.LinearMinting:
					same = cfg.Amount.Equal(o.Config.GetCachedValue().(*minttypes.LinearMinting).Amount)
				case *minttypes.ExponentialStepMinting:
					oc := o.Config.GetCachedValue().(*minttypes.ExponentialStepMinting)
					same = cfg.Amount.Equal(oc.Amount) && cfg.StepDuration == oc.StepDuration && cfg.AmountMultiplier.Equal(oc.AmountMultiplier)
				case nil:
					same = false
				}
			}
			if !same {
				c.ViolateD("C16/minter-params-changed", map[string]string{"legacy": o.String(), "migrated": m.String()}, "migrated minter period %d differs from the legacy one", o.SequenceId)
			}
		}
	}
	dp := app.CfedistributorKeeper.GetParams(ctx)
	if err := dp.Validate(); err != nil {
		c.Violate("C16/distributor-params-invalid", "migrated distributor params fail validation: %v", err)
	}
	if v := distRulesViolation(dp.SubDistributors); v != "" {
		c.Violate("C16/distributor-params-invalid", "migrated distributor params break a validation rule (legacy: %s): %s", invalidLegacy, v)
	}
	if fmt.Sprint(toModelSubsStrings(dp.SubDistributors)) != fmt.Sprint(toModelSubsStrings(legacySds)) {
		c.Violate("C16/distributor-params-changed", "migrated sub-distributors differ from the legacy ones")
	}
	if app.CfevestingKeeper.GetParams(ctx).Denom != vd {
		c.Violate("C16/vesting-params-changed", "vesting denom after the upgrade: %q", app.CfevestingKeeper.GetParams(ctx).Denom)
	}
	ownerPools := 0
	for k := range prePools {
		if k.owner == v120.ValidatorsVestingPoolOwner {
			ownerPools++
		}
	}
	c.Max("max_owners", int64(nOwners))
	c.Nontrivial(withOwner && ownerPools >= 2 && nOwners >= 20)
	if c.Property == "C16" {
		c.KeepViolations("C16/")
	}
	c.Sample(map[string]interface{}{"owners": nOwners, "pools": len(prePools), "hardcoded_owner": withOwner, "validators_pool_locked": fmt.Sprint(valLocked), "validators_type": withValidatorsType, "split_applied": splitApplied, "shifted_accounts": len(shiftPre)})
}

func toModelSubsStrings(sds []disttypes.SubDistributor) []string {
	var out []string
	for _, sd := range toModelSubs(sds) {
		var parts []string
		for _, s := range sd.Sources {
			parts = append(parts, "src:"+s.Key())
		}
		for _, sh := range sd.Shares {
			parts = append(parts, "share:"+sh.Name+">"+sh.Dest.Key()+"="+sh.Share.FloatString(18))
		}
		sort.Strings(parts[:len(sd.Sources)])
		out = append(out, sd.Name+"|"+fmt.Sprint(parts)+"|burn="+sd.Burn.FloatString(18)+"|primary="+sd.Primary.Key())
	}
	return out
}

// the addresses the v1.2.0 upgrade is documented to mark (restated here, not imported)
var c16ListedGenesis = map[string]bool{
	"c4e1z5h0squtynr8rhwl0mzqdcd0wgmfyvpqmx3y2r": true, "c4e1x6umuffxgcrgqqqdncwn2t8qdnc2muvultxmza": true, "c4e1wrhuuwjjmkjx3lxs08ych9ddgdzvujgdr6hnwv": true,
	"c4e12rxujjj4th90t8z30gnre5tv4zmguuqvtn2u02": true, "c4e1zvkxuvk8t6wju76pxkp3f4kk447sjm2kdsgvwy": true, "c4e13qamrx863pa72ku88d3ykypdh0ar6rjycnpkl2": true,
	"c4e1f57wax48ttw068e6lgag9fse62d4m3e24u0sph": true, "c4e1jxlv64qf8rvy8zayl7m2m8a0jzhxkfj9aw96f3": true, "c4e1cpnh73765mx3q87lxacqwvwxn4s8ppry458xp4": true,
	"c4e1argfhnzzxjft426tnj4crjsu8lqp0av3x8gjey": true, "c4e1w8hdxd6g7vzupll9ynmenjkln9rs4kcq0mdesf": true, "c4e12znccp5u8zx9qy4u9gmpxjge9reaxy80qfm295": true,
	"c4e1t45l2pnk5uwj2qqjw4f6rcy6jw5f9lkplmp49e": true, "c4e1nmfgexjj3yvvrnc2n7yyahgxsm0vqcm57dqx5f": true, "c4e1ej2es5fjztqjcd4pwa0zyvaevtjd2y5wq2vaaq": true,
	"c4e1dsm96gwcv35m4rqd93pzcsztpkrqe0ev7getj8": true, "c4e10wjj2qmn4zjg2sdxq9mfyj5v4yukwyhzdtf2zp": true, "c4e1zrd0783g8qa5659apw5tpuqmz2ct6j20t4ymx3": true,
	"c4e1y8lndj6jz5z93g4xd05nmwyc3wtn39dfgfx7r7": true, "c4e12845qa79cwlvf3jdcnfq2jy2jfmzslcg52lv3g": true,
}
var c16ListedFromPool = map[string]bool{
	"c4e13e303u43k7mng4927axuhve0plgsyxc4xky63k": true, "c4e1twh6302lzcvn7lr3x0fjwfkgryn9ac5c6v2zaj": true, "c4e19je7lmu4yzrpzh7gksj3uhku4as8at6lk36qe7": true,
	"c4e1nm50zycnm9yf33rv8n6lpks24usxzahk5usl7e": true,
}

// c16EncodeLegacyPools writes an owner's pools in the wire format of v1.1.0: address = 1,
// vesting_pools = 3 (repeated); per pool name = 1, vesting_type = 2, lock_start = 3,
// lock_end = 4 (timestamps: seconds = 1, nanos = 2), initially_locked = 5, withdrawn = 6,
// sent = 7 (amounts as decimal text).
func c16EncodeLegacyPools(avp *vesttypes.AccountVestingPools) []byte {
	ts := func(t time.Time) []byte {
		var b []byte
		if s := t.Unix(); s != 0 {
			b = protowire.AppendTag(b, 1, protowire.VarintType)
			b = protowire.AppendVarint(b, uint64(s))
		}
		if ns := t.Nanosecond(); ns != 0 {
			b = protowire.AppendTag(b, 2, protowire.VarintType)
			b = protowire.AppendVarint(b, uint64(ns))
		}
		return b
	}
	str := func(b []byte, num protowire.Number, v string) []byte {
		if v == "" {
			return b
		}
		b = protowire.AppendTag(b, num, protowire.BytesType)
		return protowire.AppendString(b, v)
	}
	byt := func(b []byte, num protowire.Number, v []byte) []byte {
		b = protowire.AppendTag(b, num, protowire.BytesType)
		return protowire.AppendBytes(b, v)
	}
	var out []byte
	out = str(out, 1, avp.Owner)
	for _, p := range avp.VestingPools {
		var pb []byte
		pb = str(pb, 1, p.Name)
		pb = str(pb, 2, p.VestingType)
		pb = byt(pb, 3, ts(p.LockStart))
		pb = byt(pb, 4, ts(p.LockEnd))
		il, _ := p.InitiallyLocked.Marshal()
		wd, _ := p.Withdrawn.Marshal()
		st, _ := p.Sent.Marshal()
		pb = byt(pb, 5, il)
		pb = byt(pb, 6, wd)
		pb = byt(pb, 7, st)
		out = byt(out, 3, pb)
	}
	return out
}
