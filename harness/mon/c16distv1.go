package mon

import (
	"fmt"

	"verifharness/chain"
	"verifharness/fw"
	"verifharness/gen"

	distv1 "github.com/chain4energy/c4e-chain/x/cfedistributor/migrations/v1"
	distv2 "github.com/chain4energy/c4e-chain/x/cfedistributor/migrations/v2"
	disttypes "github.com/chain4energy/c4e-chain/x/cfedistributor/types"
	"github.com/cosmos/cosmos-sdk/codec"
	"github.com/cosmos/cosmos-sdk/store/prefix"
	sdk "github.com/cosmos/cosmos-sdk/types"
	paramstypes "github.com/cosmos/cosmos-sdk/x/params/types"
)

// c16DistV1Probe: the older parameter migration of the distributor (consensus version 1 -> 2,
// shares in percent become shares between 0 and 1). A generated valid configuration is written
// into the x/params subspace in the first format - every share multiplied by 100, which is
// exact in 18 decimals - and the repository's MigrateParams must give back the same
// configuration: names, sources, destinations, every share and the burn share digit for digit.
func c16DistV1Probe(c *fw.Case) {
	r := c.R
	e := newDistKeys()
	do := distOpts(e, true)
	do.NiceShares = r.Intn(3) == 0
	sds := gen.SubDistributors(r, do)
	if sds == nil {
		c.Describe("no-config")
		return
	}
	n, err := chain.NewNode(chain.GenesisSpec{Time: gen.Epoch})
	if err != nil {
		c.Inconclusive("node: %v", err)
		return
	}
	hundred := sdk.NewDec(100)
	var old []distv1.SubDistributor
	fractional := 0
	for _, sd := range sds {
		o := distv1.SubDistributor{Name: sd.Name, Destination: distv1.Destination{
			Account:   distv1.Account{Id: sd.Destinations.PrimaryShare.Id, Type: sd.Destinations.PrimaryShare.Type},
			BurnShare: &distv1.BurnShare{Percent: sd.Destinations.BurnShare.Mul(hundred)}}}
		for _, s := range sd.Sources {
			o.Sources = append(o.Sources, &distv1.Account{Id: s.Id, Type: s.Type})
		}
		for _, sh := range sd.Destinations.Shares {
			p := sh.Share.Mul(hundred)
			if !p.Quo(hundred).Equal(sh.Share) {
				c.Inconclusive("share %s is not representable in percent", sh.Share)
				return
			}
			if !p.TruncateDec().Equal(p) {
				fractional++
			}
			o.Destination.Share = append(o.Destination.Share, &distv1.Share{Name: sh.Name, Percent: p, Account: distv1.Account{Id: sh.Destination.Id, Type: sh.Destination.Type}})
		}
		old = append(old, o)
	}
	c.Describe("dist-v1->v2", fmt.Sprint(toModelSubsStrings(sds)))
	ctx := n.Ctx()
	ss := n.App.GetSubspace(disttypes.ModuleName)
	if !ss.HasKeyTable() {
		ss = ss.WithKeyTable(disttypes.ParamKeyTable())
	}
	bz, merr := codec.NewLegacyAmino().MarshalJSON(old)
	if merr != nil {
		c.Inconclusive("marshal: %v", merr)
		return
	}
	var migErr error
	if p := safeCall("MigrateParams", func() {
		prefix.NewStore(ctx.KVStore(n.App.GetKey(paramstypes.StoreKey)), append([]byte(ss.Name()), '/')).Set(disttypes.KeySubDistributors, bz)
		migErr = distv2.MigrateParams(ctx, &ss)
	}); p != nil {
		c.ViolateD("C16/dist-v1-migration-panic/"+panicKey(p.Stack), map[string]string{"panic": short(p.Value, 400), "stack": short(p.Stack, 3000)}, "the version 1 -> 2 parameter migration of the distributor panicked: %s", short(p.Value, 200))
		return
	}
	if migErr != nil {
		c.ViolateD("C16/dist-v1-migration-failed", map[string]string{"config": fmt.Sprint(toModelSubsStrings(sds))}, "the version 1 -> 2 parameter migration of a valid distributor configuration failed: %v", migErr)
		return
	}
	var got []disttypes.SubDistributor
	if p := safeCall("Get", func() { ss.Get(ctx, disttypes.KeySubDistributors, &got) }); p != nil {
		c.Violate("C16/dist-v1-migration-unreadable", "the migrated distributor parameters cannot be read back: %s", short(p.Value, 200))
		return
	}
	c.Count("dist_v1_param_migrations", 1)
	c.Count("dist_v1_shares_with_fractional_percent", int64(fractional))
	if fmt.Sprint(toModelSubsStrings(got)) != fmt.Sprint(toModelSubsStrings(sds)) {
		c.ViolateD("C16/dist-v1-params-changed", map[string]string{"before": fmt.Sprint(toModelSubsStrings(sds)), "after": fmt.Sprint(toModelSubsStrings(got))}, "the version 1 -> 2 parameter migration of the distributor changed the configuration (shares in percent -> shares)")
	}
	c.Nontrivial(fractional > 0)
}
