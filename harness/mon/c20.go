package mon

import (
	"context"
	"encoding/json"
	"fmt"
	"math"
	"math/big"
	"math/rand"
	"os"
	"reflect"
	"runtime/debug"
	"strings"
	"time"

	"verifharness/chain"
	"verifharness/fw"
	"verifharness/gen"

	disttypes "github.com/chain4energy/c4e-chain/x/cfedistributor/types"
	minttypes "github.com/chain4energy/c4e-chain/x/cfeminter/types"
	sigtypes "github.com/chain4energy/c4e-chain/x/cfesignature/types"
	vesttypes "github.com/chain4energy/c4e-chain/x/cfevesting/types"
	codectypes "github.com/cosmos/cosmos-sdk/codec/types"
	sdk "github.com/cosmos/cosmos-sdk/types"
	"github.com/gogo/protobuf/proto"
	abci "github.com/tendermint/tendermint/abci/types"
)

const c20PerCase = 250

func init() {
	fw.Register(&fw.Monitor{
		ID: "C20", Level: "exploration", CrashIsViolation: true,
		Rule: "case = one generated chain state (populated vesting/minter/distributor/signature stores; variants: a pool whose vesting type was removed, accounts without public key, vesting denom changed by governance to each odd denom the module's validation accepts, traced address that is not a vesting account) x 250 invocations. " +
			"Every message type of the four modules (8+2+4+3) and every gRPC query method is filled by reflection, field by field, from pools of boundary values chosen by field type and name (empty / malformed / wrong-prefix / unknown / existing addresses, nil / negative / zero / 2^255 Int and Dec, nil / unsorted / duplicate / zero / invalid-denom coins, nil pointers and slices, Any nil / unknown type-url / not unpacked / wrong cached type, durations <= 0, int64 extremes, malformed JSON and PEM), half of the fields plausible so that handlers are reached. " +
			"Routes: ValidateBasic -> GetSigners -> registered handler (message server for the unroutable signature module) under recover on a branched context; the same message in a signed transaction through CheckTx-less DeliverTx (ErrPanic results); queries through the keeper's query server and through app.Query. " +
			"Oracle: no panic anywhere except in a handler whose message ValidateBasic rejected (production never calls it). Non-trivial: the invocation reached a handler or a querier body. Distinct by (state variant, type, field-class vector) hash per case." +
			" Also: extreme int64 values (MinInt64, MaxInt64), vesting periods at the int64 limit, stored certificates of degenerate shapes; vesting accounts the fuzzer created become senders of later messages.",
		Assumptions:   []string{"a worker process that dies inside a case (Go fatal error) is reported as a violation with the last logged case"},
		Cases:         func(t string) int { return tierN(t, 960, 16000) },
		MinNontrivial: func(t string) int { return tierN(t, 600, 10000) },
		Run:           runC20,
		Extra: func(tier string, seed int64, agg *fw.Aggregate) {
			if tier == "thorough" || os.Getenv("VERIF_RACE") != "" {
				racePass("C20", seed, agg)
			}
		},
	})
}

type fuzzEnv struct {
	e        *vestEnv
	r        *rand.Rand
	addrs    []string
	names    []string
	denoms   []string
	classes  []string
	variant  string
	sigStore []string
	now      time.Time
}

func panicKey(stack string) string {
	// innermost frame inside the repository (function name)
	lines := strings.Split(stack, "\n")
	for _, l := range lines {
		l = strings.TrimSpace(l)
		if strings.HasPrefix(l, "github.com/chain4energy/c4e-chain/") {
			fn := l
			if i := strings.Index(fn, "("); i > 0 {
				// keep receiver types but cut the argument list
				if j := strings.LastIndex(fn, "("); j > 0 {
					fn = fn[:j]
				}
			}
			fn = strings.TrimPrefix(fn, "github.com/chain4energy/c4e-chain/")
			return fn
		}
	}
	return "outside-repository"
}

func safeCall(where string, f func()) (p *chain.PanicError) {
	defer func() {
		if r := recover(); r != nil {
			p = &chain.PanicError{Where: where, Value: fmt.Sprint(r), Stack: string(debug.Stack())}
		}
	}()
	f()
	return nil
}

var (
	tInt      = reflect.TypeOf(sdk.Int{})
	tDec      = reflect.TypeOf(sdk.Dec{})
	tCoins    = reflect.TypeOf(sdk.Coins{})
	tCoin     = reflect.TypeOf(sdk.Coin{})
	tDecCoins = reflect.TypeOf(sdk.DecCoins{})
	tDuration = reflect.TypeOf(time.Duration(0))
	tTime     = reflect.TypeOf(time.Time{})
	tAnyPtr   = reflect.TypeOf(&codectypes.Any{})
)

func (f *fuzzEnv) class(s string) { f.classes = append(f.classes, s) }

func (f *fuzzEnv) hostileInt() sdk.Int {
	switch f.r.Intn(10) {
	case 8:
		// the largest representable Int: adding anything positive to it overflows
		f.class("int:2^256-1")
		return sdk.NewIntFromBigInt(new(big.Int).Sub(new(big.Int).Lsh(big.NewInt(1), 256), big.NewInt(1)))
	case 9:
		f.class("int:2^63")
		return sdk.NewIntFromBigInt(new(big.Int).Add(new(big.Int).Lsh(big.NewInt(1), 63), big.NewInt(int64(f.r.Intn(3)-1))))
	case 0:
		f.class("int:nil")
		return sdk.Int{}
	case 1:
		f.class("int:0")
		return sdk.ZeroInt()
	case 2:
		f.class("int:neg")
		return sdk.NewInt(-1 - int64(f.r.Intn(1000)))
	case 3:
		f.class("int:2^255")
		return sdk.NewIntFromBigInt(new(big.Int).Sub(new(big.Int).Lsh(big.NewInt(1), 255), big.NewInt(1)))
	case 4:
		f.class("int:1")
		return sdk.OneInt()
	}
	f.class("int:plausible")
	return sdk.NewInt(int64(1 + f.r.Intn(100000)))
}

func (f *fuzzEnv) hostileDec() sdk.Dec {
	switch f.r.Intn(9) {
	case 0:
		f.class("dec:nil")
		return sdk.Dec{}
	case 1:
		f.class("dec:0")
		return sdk.ZeroDec()
	case 2:
		f.class("dec:neg")
		return sdk.NewDec(-1)
	case 3:
		f.class("dec:1")
		return sdk.OneDec()
	case 4:
		f.class("dec:big")
		return sdk.NewDecFromBigInt(new(big.Int).Exp(big.NewInt(10), big.NewInt(40), nil))
	case 5:
		f.class("dec:eps")
		return sdk.NewDecWithPrec(1, 18)
	}
	f.class("dec:plausible")
	return sdk.NewDecWithPrec(int64(f.r.Intn(100)), 2)
}

func (f *fuzzEnv) hostileDenom() string {
	ds := []string{"", "a", "!", "uc4e", "foo", "UC4E", "1abc", strings.Repeat("x", 200), "ibc/27394FB092D2ECCD56123C74F36E4C1F926001CEADA9CA97EA622B25F41E5EB2", "uc4e ", "nonexistent"}
	d := ds[f.r.Intn(len(ds))]
	f.class("denom:" + short(d, 6))
	return d
}

func (f *fuzzEnv) hostileCoins() sdk.Coins {
	switch f.r.Intn(12) {
	case 10:
		f.class("coins:hostile-amount")
		if a := f.hostileInt(); !a.IsNil() {
			return sdk.Coins{sdk.Coin{Denom: "uc4e", Amount: a}}
		}
		return sdk.Coins{sdk.Coin{Denom: "uc4e", Amount: sdk.OneInt()}}
	case 11:
		f.class("coins:two-denoms")
		return sdk.NewCoins(sdk.NewCoin("foo", sdk.NewInt(int64(1+f.r.Intn(1000)))), sdk.NewCoin("uc4e", sdk.NewInt(int64(1+f.r.Intn(100000)))))
	case 0:
		f.class("coins:nil")
		return nil
	case 1:
		f.class("coins:empty")
		return sdk.Coins{}
	case 2:
		f.class("coins:unsorted")
		return sdk.Coins{sdk.NewCoin("uc4e", sdk.NewInt(5)), sdk.NewCoin("foo", sdk.NewInt(5))}
	case 3:
		f.class("coins:dup")
		return sdk.Coins{sdk.NewCoin("uc4e", sdk.NewInt(5)), sdk.NewCoin("uc4e", sdk.NewInt(7))}
	case 4:
		f.class("coins:zero")
		return sdk.Coins{sdk.Coin{Denom: "uc4e", Amount: sdk.ZeroInt()}}
	case 5:
		f.class("coins:neg")
		return sdk.Coins{sdk.Coin{Denom: "uc4e", Amount: sdk.NewInt(-5)}}
	case 6:
		f.class("coins:baddenom")
		return sdk.Coins{sdk.Coin{Denom: f.hostileDenom(), Amount: sdk.NewInt(5)}}
	case 7:
		f.class("coins:nilamount")
		return sdk.Coins{sdk.Coin{Denom: "uc4e", Amount: sdk.Int{}}}
	}
	f.class("coins:plausible")
	return sdk.NewCoins(sdk.NewCoin("uc4e", sdk.NewInt(int64(1+f.r.Intn(100000)))))
}

func (f *fuzzEnv) hostileString(field string) string {
	lf := strings.ToLower(field)
	switch {
	case strings.Contains(lf, "authority"):
		if f.r.Intn(3) > 0 {
			f.class("auth:gov")
			return govAuthority()
		}
		fallthrough
	case strings.Contains(lf, "address") || strings.Contains(lf, "owner") || strings.Contains(lf, "creator") || lf == "to" || lf == "from" || strings.Contains(lf, "accaddress"):
		switch f.r.Intn(8) {
		case 0:
			f.class("addr:empty")
			return ""
		case 1:
			f.class("addr:malformed")
			return "c4e1notanaddress"
		case 2:
			f.class("addr:wrongprefix")
			return "cosmos1jv65s3grqf6v6jl3dp4t6c9t9rk99cd88lyufl"
		case 3:
			f.class("addr:long")
			return "c4e1" + strings.Repeat("q", 300)
		case 4:
			f.class("addr:unknown")
			return chain.NewKey(fmt.Sprintf("unknown-%d", f.r.Intn(1000))).Bech()
		}
		f.class("addr:existing")
		return f.addrs[f.r.Intn(len(f.addrs))]
	case strings.Contains(lf, "denom"):
		return f.hostileDenom()
	case strings.Contains(lf, "json"):
		js := []string{"", "{", "null", "[]", `{"signature":1,"algorithm":[],"certificate":{}}`, `{"signature":"AA==","algorithm":"ecdsaWithSha256","certificate":"-----BEGIN CERTIFICATE-----\nAAAA\n-----END CERTIFICATE-----"}`,
			`{"signature":"!!notbase64","algorithm":"sha256WithRsaEncryption","certificate":"garbage"}`, strings.Repeat("{", 2000)}
		s := js[f.r.Intn(len(js))]
		f.class("json:" + short(s, 8))
		return s
	case strings.Contains(lf, "pubkey"):
		ps := []string{"", "{", `{"@type":"/cosmos.crypto.secp256k1.PubKey","key":"AAAA"}`, `{"@type":"/unknown","key":"AA=="}`, "null"}
		if f.r.Intn(2) == 0 {
			bz, _ := f.e.n.Enc.Marshaler.MarshalInterfaceJSON(f.e.owners[0].Priv.PubKey())
			f.class("pubkey:valid")
			return string(bz)
		}
		s := ps[f.r.Intn(len(ps))]
		f.class("pubkey:" + short(s, 8))
		return s
	case strings.Contains(lf, "referenceid"):
		ids := []string{"", "short", strings.Repeat("a", 64), strings.Repeat("b", 65), strings.Repeat("Z", 64), strings.Repeat("b", 64), strings.Repeat("a", 64), strings.Repeat("Z", 64)}
		s := ids[f.r.Intn(len(ids))]
		f.class(fmt.Sprintf("refid:%d", len(s)))
		return s
	}
	switch f.r.Intn(7) {
	case 6:
		ws := []string{" ", "\n", "\t \r\n", "\u00a0", "   "}
		f.class("str:whitespace")
		return ws[f.r.Intn(len(ws))]
	case 0:
		f.class("str:empty")
		return ""
	case 1:
		f.class("str:long")
		return strings.Repeat("n", 5000)
	case 2:
		f.class("str:odd")
		return "\x00\xff name\n"
	}
	f.class("str:known")
	return f.names[f.r.Intn(len(f.names))]
}

func (f *fuzzEnv) hostileAny() *codectypes.Any {
	switch f.r.Intn(8) {
	case 0:
		f.class("any:nil")
		return nil
	case 1:
		f.class("any:unknown-url")
		return &codectypes.Any{TypeUrl: "/unknown.Type", Value: []byte{1, 2, 3}}
	case 2:
		f.class("any:not-unpacked")
		return &codectypes.Any{TypeUrl: "/chain4energy.c4echain.cfeminter.LinearMinting", Value: []byte{0xff, 0xff}}
	case 3:
		f.class("any:wrong-cached")
		a, _ := codectypes.NewAnyWithValue(&minttypes.MsgUpdateParams{})
		return a
	case 4:
		f.class("any:linear-nil-amount")
		a, _ := codectypes.NewAnyWithValue(&minttypes.LinearMinting{})
		return a
	case 5:
		f.class("any:exp-hostile")
		a, _ := codectypes.NewAnyWithValue(&minttypes.ExponentialStepMinting{Amount: f.hostileInt(), StepDuration: f.hostileDuration(), AmountMultiplier: f.hostileDec()})
		return a
	case 6:
		f.class("any:linear")
		a, _ := codectypes.NewAnyWithValue(&minttypes.LinearMinting{Amount: f.hostileInt()})
		return a
	}
	f.class("any:nominting")
	a, _ := codectypes.NewAnyWithValue(&minttypes.NoMinting{})
	return a
}

func (f *fuzzEnv) hostileDuration() time.Duration {
	ds := []time.Duration{0, -1, -time.Hour, 1, time.Second, time.Hour, 1<<63 - 1, -1 << 63}
	d := ds[f.r.Intn(len(ds))]
	f.class("dur:" + d.String())
	return d
}

// fill fills v (a settable struct value) field by field.
func (f *fuzzEnv) fill(v reflect.Value, depth int) {
	t := v.Type()
	for i := 0; i < t.NumField(); i++ {
		fld := t.Field(i)
		if fld.PkgPath != "" || strings.HasPrefix(fld.Name, "XXX_") {
			continue
		}
		f.fillValue(v.Field(i), fld.Name, depth)
	}
}

func (f *fuzzEnv) fillValue(fv reflect.Value, name string, depth int) {
	ft := fv.Type()
	switch {
	case ft == tInt:
		fv.Set(reflect.ValueOf(f.hostileInt()))
	case ft == tDec:
		fv.Set(reflect.ValueOf(f.hostileDec()))
	case ft == tCoins:
		c := f.hostileCoins()
		if c == nil {
			fv.Set(reflect.Zero(ft))
		} else {
			fv.Set(reflect.ValueOf(c))
		}
	case ft == tCoin:
		fv.Set(reflect.ValueOf(sdk.Coin{Denom: f.hostileDenom(), Amount: f.hostileInt()}))
	case ft == tDecCoins:
		fv.Set(reflect.ValueOf(sdk.DecCoins{sdk.DecCoin{Denom: f.hostileDenom(), Amount: f.hostileDec()}}))
	case ft == tDuration:
		fv.Set(reflect.ValueOf(f.hostileDuration()))
	case ft == tTime:
		ts := []time.Time{{}, gen.Epoch, gen.Epoch.Add(-100 * 365 * 24 * time.Hour), gen.Epoch.Add(time.Hour), time.Unix(1<<40, 0)}
		fv.Set(reflect.ValueOf(ts[f.r.Intn(len(ts))]))
		f.class("time")
	case ft == tAnyPtr:
		a := f.hostileAny()
		if a == nil {
			fv.Set(reflect.Zero(ft))
		} else {
			fv.Set(reflect.ValueOf(a))
		}
	case ft.Kind() == reflect.String:
		fv.SetString(f.hostileString(name))
	case ft.Kind() == reflect.Bool:
		fv.SetBool(f.r.Intn(2) == 0)
	case ft.Kind() == reflect.Int64 || ft.Kind() == reflect.Int32:
		vs := []int64{0, -1, 1, 1 << 62, -1 << 62, gen.Epoch.Unix(), gen.Epoch.Unix() + 1000, math.MinInt64, math.MaxInt64, math.MinInt64 + gen.Epoch.Unix()}
		x := vs[f.r.Intn(len(vs))]
		f.class(fmt.Sprintf("i64:%d", x))
		fv.SetInt(x)
	case ft.Kind() == reflect.Uint64 || ft.Kind() == reflect.Uint32:
		vs := []uint64{0, 1, 2, 1 << 31, 99}
		fv.SetUint(vs[f.r.Intn(len(vs))])
	case ft.Kind() == reflect.Ptr && ft.Elem() == tTime:
		if f.r.Intn(3) == 0 {
			f.class("ptime:nil")
			fv.Set(reflect.Zero(ft))
		} else {
			tt := gen.Epoch.Add(time.Duration(f.r.Intn(1000)-200) * time.Hour)
			fv.Set(reflect.ValueOf(&tt))
		}
	case ft.Kind() == reflect.Ptr && ft.Elem().Kind() == reflect.Struct:
		if depth > 4 || f.r.Intn(5) == 0 {
			f.class("ptr:nil")
			fv.Set(reflect.Zero(ft))
			return
		}
		nv := reflect.New(ft.Elem())
		f.fill(nv.Elem(), depth+1)
		fv.Set(nv)
	case ft.Kind() == reflect.Struct:
		f.fill(fv, depth+1)
	case ft.Kind() == reflect.Slice && ft.Elem().Kind() == reflect.String:
		switch f.r.Intn(5) {
		case 0:
			f.class("strs:nil")
			fv.Set(reflect.Zero(ft))
		default:
			n := 1 + f.r.Intn(3)
			sl := reflect.MakeSlice(ft, n, n)
			for i := 0; i < n; i++ {
				sl.Index(i).SetString(f.hostileString(name))
			}
			fv.Set(sl)
		}
	case ft.Kind() == reflect.Slice && ft.Elem().Kind() == reflect.Uint8:
		fv.SetBytes([]byte{1, 2, 3})
	case ft.Kind() == reflect.Slice:
		if depth > 4 || f.r.Intn(6) == 0 {
			f.class("slice:nil")
			fv.Set(reflect.Zero(ft))
			return
		}
		n := 1 + f.r.Intn(3)
		sl := reflect.MakeSlice(ft, n, n)
		for i := 0; i < n; i++ {
			f.fillValue(sl.Index(i), name, depth+1)
		}
		fv.Set(sl)
	}
}

func c20Messages() []sdk.Msg {
	return []sdk.Msg{
		&vesttypes.MsgCreateVestingPool{}, &vesttypes.MsgWithdrawAllAvailable{}, &vesttypes.MsgCreateVestingAccount{}, &vesttypes.MsgSendToVestingAccount{},
		&vesttypes.MsgSplitVesting{}, &vesttypes.MsgMoveAvailableVesting{}, &vesttypes.MsgMoveAvailableVestingByDenoms{}, &vesttypes.MsgUpdateDenomParam{},
		&minttypes.MsgUpdateMintersParams{}, &minttypes.MsgUpdateParams{},
		&disttypes.MsgUpdateParams{}, &disttypes.MsgUpdateSubDistributorParam{}, &disttypes.MsgUpdateSubDistributorDestinationShareParam{}, &disttypes.MsgUpdateSubDistributorBurnShareParam{},
		&sigtypes.MsgStoreSignature{}, &sigtypes.MsgPublishReferencePayloadLink{}, &sigtypes.MsgCreateAccount{},
	}
}

func runC20(c *fw.Case) {
	e, err := newVestEnv(c.R)
	if err != nil {
		c.Inconclusive("env: %v", err)
		return
	}
	now := gen.Epoch.Add(time.Hour)
	if _, err := e.n.BeginBlock(now); err != nil {
		c.Inconclusive("beginblock: %v", err)
		return
	}
	f := &fuzzEnv{e: e, r: c.R, now: now}
	for a := range e.keys {
		f.addrs = append(f.addrs, a)
	}
	sortStrings(f.addrs)
	f.addrs = append(f.addrs, e.moduleAddr, chain.ModuleAddr("fee_collector"))
	f.names = []string{"gp0", "gp1", "np0", "vt0", "vt1", "vt3", "default_distributor", "share1", "unknown"}
	// populate a little history so that stores are non-empty
	for i := 0; i < 12; i++ {
		op := e.genOp(c.R, now)
		if o, err := e.exec(op, now); err == nil && o.res.Code == 0 {
			if k, ok := e.keys[op.to]; ok && (op.kind == "send" || op.kind == "split" || op.kind == "create-account") {
				e.cvaKeys = append(e.cvaKeys, k)
			}
		}
	}
	// commit what has been built so far (ABCI queries read committed state) and open the next block
	if _, _, err := e.n.EndBlock(); err == nil {
		now = now.Add(6 * time.Second)
		f.now = now
		if _, err := e.n.BeginBlock(now); err != nil {
			c.Inconclusive("beginblock: %v", err)
			return
		}
	}
	// state variants
	variants := []string{"populated", "vesting-type-removed", "trace-of-non-vesting-account", "odd-vesting-denom", "signature-data"}
	f.variant = variants[c.Index%len(variants)]
	ctx := e.n.Ctx()
	switch f.variant {
	case "vesting-type-removed":
		for _, ps := range e.pools() {
			for _, p := range ps {
				e.n.App.CfevestingKeeper.RemoveVestingType(ctx, p.Type)
			}
		}
	case "trace-of-non-vesting-account":
		e.n.App.CfevestingKeeper.AppendVestingAccountTrace(ctx, vesttypes.VestingAccountTrace{Address: e.baseNoKey.Bech(), Genesis: true})
		e.n.App.CfevestingKeeper.AppendVestingAccountTrace(ctx, vesttypes.VestingAccountTrace{Address: "not-an-address", FromGenesisPool: true})
	case "odd-vesting-denom":
		// only denoms the module's own validation accepts are installed (SetParams validates)
		for _, d := range []string{"a", "!", "1abc", "uc4e "} {
			if e.n.App.CfevestingKeeper.SetParams(ctx, vesttypes.Params{Denom: d}) == nil {
				c.Count("odd_denoms_accepted_by_validation", 1)
				if c.R.Intn(2) == 0 {
					break
				}
			}
		}
	case "signature-data":
		// stored certificates of every degenerate shape: not PEM at all, a PEM block with an
		// empty body, with a body that is no certificate, of another type, two blocks
		certs := []string{"x", "", "-----BEGIN CERTIFICATE-----\n-----END CERTIFICATE-----", "-----BEGIN CERTIFICATE-----\nAAAA\n-----END CERTIFICATE-----",
			"-----BEGIN EC PARAMETERS-----\nBggqhkjOPQMBBw==\n-----END EC PARAMETERS-----", "-----BEGIN CERTIFICATE-----\n-----END CERTIFICATE-----\n-----BEGIN CERTIFICATE-----\nAAAA\n-----END CERTIFICATE-----"}
		sigJSON := func() string {
			bz, _ := json.Marshal(map[string]string{"signature": []string{"AA==", "", "MEUCIQ=="}[c.R.Intn(3)], "algorithm": []string{"ecdsaWithSha256", "sha256WithRsaEncryption", "x"}[c.R.Intn(3)], "certificate": certs[c.R.Intn(len(certs))]})
			return string(bz)
		}
		// links published for the reference ids the fuzzer uses, signatures stored for some
		// (address, reference id) pairs only: every combination of present / absent objects
		for _, refID := range []string{strings.Repeat("a", 64), strings.Repeat("Z", 64)} {
			if lk, err := e.n.App.CfesignatureKeeper.CreateReferencePayloadLink(sdk.WrapSDKContext(e.n.Ctx()), &sigtypes.QueryCreateReferencePayloadLinkRequest{ReferenceId: refID, PayloadHash: "h"}); err == nil {
				execSigOn(e.n, &sigtypes.MsgPublishReferencePayloadLink{Creator: e.owners[0].Bech(), Key: lk.ReferenceKey, Value: lk.ReferenceValue})
			}
			if sk, err := e.n.App.CfesignatureKeeper.CreateStorageKey(sdk.WrapSDKContext(e.n.Ctx()), &sigtypes.QueryCreateStorageKeyRequest{TargetAccAddress: f.addrs[0], ReferenceId: refID}); err == nil {
				execSigOn(e.n, &sigtypes.MsgStoreSignature{Creator: e.owners[0].Bech(), StorageKey: sk.StorageKey, SignatureJSON: sigJSON()})
			}
		}
		if sk, err := e.n.App.CfesignatureKeeper.CreateStorageKey(sdk.WrapSDKContext(e.n.Ctx()), &sigtypes.QueryCreateStorageKeyRequest{TargetAccAddress: f.addrs[1], ReferenceId: strings.Repeat("b", 64)}); err == nil {
			// signature without a published link
			execSigOn(e.n, &sigtypes.MsgStoreSignature{Creator: e.owners[0].Bech(), StorageKey: sk.StorageKey, SignatureJSON: sigJSON()})
		}
		for i := 0; i < 3; i++ {
			execSigOn(e.n, &sigtypes.MsgPublishReferencePayloadLink{Creator: e.owners[0].Bech(), Key: fmt.Sprintf("k%d", i), Value: "v"})
			execSigOn(e.n, &sigtypes.MsgStoreSignature{Creator: e.owners[0].Bech(), StorageKey: fmt.Sprintf("s%d", i), SignatureJSON: sigJSON()})
		}
	}
	msgs := c20Messages()
	queries := c20Queries(e.n)
	reached := 0
	seen := map[string]bool{}
	for i := 0; i < c20PerCase; i++ {
		f.classes = nil
		if f.r.Intn(3) != 0 {
			var msg sdk.Msg
			if f.r.Intn(5) == 0 {
				// a valid nested update with exactly one field made hostile: random filling
				// practically never gets past the structural checks of these messages
				// building a plausible message reads balances and locked coins of the accounts the
				// fuzzer created earlier: x/bank panicking on one of them is a finding, not a crash
				if p := safeCall("nearValid", func() { msg = f.nearValid() }); p != nil {
					c.ViolateD("C20/bank-panics-on-account-created-by-a-handler", map[string]string{"variant": f.variant, "panic": short(p.Value, 300), "stack": short(p.Stack, 3000)},
						"reading the locked coins of an account that an accepted message created panicked: %s", short(p.Value, 200))
					break
				}
			}
			if msg == nil {
				proto0 := msgs[f.r.Intn(len(msgs))]
				m := reflect.New(reflect.TypeOf(proto0).Elem())
				f.fill(m.Elem(), 0)
				msg = m.Interface().(sdk.Msg)
			}
			// only wire-representable inputs can reach a node: round-trip through the
			// protobuf encoding and interface unpacking exactly like the tx decoder does
			rt, okw := wireRoundTrip(e.n, msg.(proto.Message))
			if !okw {
				c.Count("not_wire_representable", 1)
				continue
			}
			msg = rt.(sdk.Msg)
			name := proto.MessageName(msg.(proto.Message))
			sig := f.variant + "|" + name + "|" + strings.Join(f.classes, ",")
			seen[sig] = true
			if c20RunMsg(c, e, msg, name, f) {
				reached++
			}
		} else {
			q := queries[f.r.Intn(len(queries))]
			var req reflect.Value
			if f.r.Intn(12) == 0 {
				req = reflect.Zero(q.reqType) // nil request
				f.class("req:nil")
			} else {
				req = reflect.New(q.reqType.Elem())
				f.fill(req.Elem(), 0)
				rt, okw := wireRoundTrip(e.n, req.Interface().(proto.Message))
				if !okw {
					c.Count("not_wire_representable", 1)
					continue
				}
				req = reflect.ValueOf(rt)
			}
			seen[f.variant+"|"+q.name+"|"+strings.Join(f.classes, ",")] = true
			if c20RunQuery(c, e, q, req) {
				reached++
			}
		}
		if c.NViol() > 30 {
			break
		}
	}
	c.Count("invocations", c20PerCase)
	c.Count("reached_handler_or_querier", int64(reached))
	c.Count("distinct_type_fieldclass_vectors", int64(len(seen)))
	c.Describe(f.variant, c.Seed, c.Index, len(seen))
	c.Nontrivial(reached > 20)
	c.Sample(map[string]interface{}{"variant": f.variant, "invocations": c20PerCase, "reached": reached, "distinct_vectors": len(seen)})
}

func sortStrings(s []string) {
	for i := 1; i < len(s); i++ {
		for j := i; j > 0 && s[j] < s[j-1]; j-- {
			s[j], s[j-1] = s[j-1], s[j]
		}
	}
}

func c20RunMsg(c *fw.Case, e *vestEnv, msg sdk.Msg, name string, f *fuzzEnv) (reached bool) {
	detail := func(p *chain.PanicError) map[string]string {
		return map[string]string{"message": fmt.Sprintf("%+v", msg), "variant": f.variant, "panic": short(p.Value, 300), "stack": short(p.Stack, 3000)}
	}
	var vbErr error
	if p := safeCall("ValidateBasic", func() { vbErr = msg.ValidateBasic() }); p != nil {
		c.ViolateD("C20/validatebasic-panic/"+name+"/"+panicKey(p.Stack), detail(p), "%s.ValidateBasic panicked: %s", name, short(p.Value, 200))
		return false
	}
	if vbErr != nil {
		c.Count("rejected_by_validate_basic", 1)
		return false
	}
	if p := safeCall("GetSigners", func() { msg.GetSigners() }); p != nil {
		c.ViolateD("C20/getsigners-panic/"+name, detail(p), "%s passed ValidateBasic but GetSigners panicked: %s", name, short(p.Value, 200))
		return false
	}
	// handler
	handler := e.n.App.MsgServiceRouter().Handler(msg)
	if handler != nil {
		cctx, write := e.n.Ctx().CacheContext()
		var herr error
		if p := safeCall("handler", func() {
			_, herr = handler(cctx, msg)
			if herr == nil && f.r.Intn(3) == 0 && c20SafeToKeep(msg) {
				write() // keep the effect: later messages and queries run against the new state
				if m, ok := msg.(*vesttypes.MsgCreateVestingAccount); ok {
					// the new vesting account becomes a sender of later splits and moves
					if k, known := e.keys[m.ToAddress]; known {
						e.cvaKeys = append(e.cvaKeys, k)
					}
				}
			}
		}); p != nil {
			c.ViolateD("C20/handler-panic/"+name+"/"+panicKey(p.Stack), detail(p), "%s passed ValidateBasic, its handler panicked: %s", name, short(p.Value, 200))
			return true
		}
	} else {
		// unroutable (signature module): drive the message server, discarding state
		pre := e.n.Ctx()
		_ = pre
		_, _, p := execSigDiscard(e.n, msg)
		if p != nil {
			c.ViolateD("C20/handler-panic/"+name+"/"+panicKey(p.Stack), detail(p), "%s passed ValidateBasic, its message server panicked: %s", name, short(p.Value, 200))
			return true
		}
	}
	// the same message through a signed transaction, when its signer is one of our keys
	signers := msg.GetSigners()
	if handler != nil && len(signers) == 1 {
		if k, ok := e.keys[signers[0].String()]; ok && f.r.Intn(3) == 0 {
			var res abci.ResponseDeliverTx
			var derr error
			p := safeCall("DeliverTx", func() {
				bz, err := e.n.SignTx(k, nil, chain.DefaultGas, msg)
				if err != nil {
					derr = err
					return
				}
				res, derr = e.n.DeliverTxBytes(bz)
			})
			if p != nil {
				c.ViolateD("C20/delivertx-panic/"+name+"/"+panicKey(p.Stack), detail(p), "%s in a signed transaction panicked outside baseapp's recovery: %s", name, short(p.Value, 200))
			} else if pe := asPanic(derr); pe != nil {
				c.ViolateD("C20/delivertx-panic/"+name+"/"+panicKey(pe.Stack), detail(pe), "%s in a signed transaction panicked: %s", name, short(pe.Value, 200))
			} else if derr == nil && chain.IsPanicResult(res) {
				c.ViolateD("C20/delivertx-errpanic/"+name, map[string]string{"message": fmt.Sprintf("%+v", msg), "log": short(res.Log, 1500)}, "%s: DeliverTx returned ErrPanic: %s", name, short(res.Log, 200))
			}
			c.Count("signed_tx_route", 1)
		}
	}
	return true
}

// execSigDiscard runs a signature message on a branched context that is never written back.
func execSigDiscard(n *chain.Node, msg sdk.Msg) (bool, bool, *chain.PanicError) {
	return execSigOn(n, msg)
}

type c20Query struct {
	name    string
	fn      reflect.Value
	reqType reflect.Type
	path    string
}

func c20Queries(n *chain.Node) []c20Query {
	var out []c20Query
	ctxType := reflect.TypeOf((*context.Context)(nil)).Elem()
	errType := reflect.TypeOf((*error)(nil)).Elem()
	add := func(module string, keeper interface{}) {
		v := reflect.ValueOf(keeper)
		t := v.Type()
		for i := 0; i < t.NumMethod(); i++ {
			m := t.Method(i)
			mt := m.Type
			if mt.NumIn() != 3 || mt.NumOut() != 2 || mt.In(1) != ctxType || mt.Out(1) != errType {
				continue
			}
			if mt.In(2).Kind() != reflect.Ptr || !strings.HasPrefix(mt.In(2).Elem().Name(), "Query") {
				continue
			}
			out = append(out, c20Query{name: module + "." + m.Name, fn: v.Method(i), reqType: mt.In(2), path: "/chain4energy.c4echain." + module + ".Query/" + m.Name})
		}
	}
	add("cfevesting", n.App.CfevestingKeeper)
	add("cfeminter", n.App.CfeminterKeeper)
	add("cfedistributor", n.App.CfedistributorKeeper)
	add("cfesignature", n.App.CfesignatureKeeper)
	return out
}

func c20RunQuery(c *fw.Case, e *vestEnv, q c20Query, req reflect.Value) bool {
	ctx := e.n.Ctx()
	p := safeCall("query", func() {
		q.fn.Call([]reflect.Value{reflect.ValueOf(sdk.WrapSDKContext(ctx)), req})
	})
	if p != nil {
		c.ViolateD("C20/query-panic/"+q.name+"/"+panicKey(p.Stack), map[string]string{"request": fmt.Sprintf("%+v", req.Interface()), "panic": short(p.Value, 300), "stack": short(p.Stack, 3000)}, "query %s panicked: %s", q.name, short(p.Value, 200))
		return true
	}
	c.Count("queries", 1)
	// the same request through the ABCI Query entry point (gRPC router on the committed
	// state); baseapp converts a panic there into an ErrPanic response
	if !req.IsNil() && e.n.Height > 0 {
		if bz, err := proto.Marshal(req.Interface().(proto.Message)); err == nil {
			var resp abci.ResponseQuery
			p := safeCall("app.Query", func() { resp = e.n.App.Query(abci.RequestQuery{Path: q.path, Data: bz}) })
			if p != nil {
				c.ViolateD("C20/abci-query-panic/"+q.name+"/"+panicKey(p.Stack), map[string]string{"request": fmt.Sprintf("%+v", req.Interface()), "panic": short(p.Value, 300), "stack": short(p.Stack, 3000)}, "ABCI query %s panicked: %s", q.path, short(p.Value, 200))
			} else if resp.Codespace == "undefined" && resp.Code == 111222 {
				c.ViolateD("C20/abci-query-errpanic/"+q.name, map[string]string{"request": fmt.Sprintf("%+v", req.Interface()), "log": short(resp.Log, 1500)}, "ABCI query %s answered ErrPanic: %s", q.path, short(resp.Log, 200))
			}
			c.Count("abci_queries", 1)
		}
	}
	return !req.IsNil()
}

// wireRoundTrip encodes and decodes a message the way a transaction / gRPC
// request travels, including interface unpacking.
func wireRoundTrip(n *chain.Node, m proto.Message) (out proto.Message, ok bool) {
	defer func() {
		if r := recover(); r != nil {
			out, ok = nil, false
		}
	}()
	bz, err := proto.Marshal(m)
	if err != nil {
		return nil, false
	}
	nv := reflect.New(reflect.TypeOf(m).Elem()).Interface().(proto.Message)
	if err := proto.Unmarshal(bz, nv); err != nil {
		return nil, false
	}
	if err := codectypes.UnpackInterfaces(nv, n.App.InterfaceRegistry()); err != nil {
		return nil, false
	}
	return nv, true
}

// c20SafeToKeep: emission configurations whose exponential periods would iterate an
// astronomic number of steps (a valid 1 ns step over years) are executed but not kept -
// every later query would loop for hours. That is a cost issue outside C20 (C10 bounds
// steps to >= 1 s); it must not hang the harness.
func c20SafeToKeep(msg sdk.Msg) bool {
	var start time.Time
	var minters []*minttypes.Minter
	switch m := msg.(type) {
	case *minttypes.MsgUpdateParams:
		start, minters = m.StartTime, m.Minters
	case *minttypes.MsgUpdateMintersParams:
		start, minters = m.StartTime, m.Minters
	default:
		return true
	}
	for _, m := range minters {
		if m == nil || m.Config == nil {
			continue
		}
		if es, ok := m.Config.GetCachedValue().(*minttypes.ExponentialStepMinting); ok && es.StepDuration > 0 && es.StepDuration < time.Second {
			return false
		}
	}
	sorted := append([]*minttypes.Minter{}, minters...)
	sortMinters(sorted)
	return minterStepCost(start, sorted, gen.Epoch.Add(10*365*24*time.Hour)) <= 50000
}

func sortMinters(ms []*minttypes.Minter) {
	for i := 1; i < len(ms); i++ {
		for j := i; j > 0 && ms[j] != nil && ms[j-1] != nil && ms[j].SequenceId < ms[j-1].SequenceId; j-- {
			ms[j], ms[j-1] = ms[j-1], ms[j]
		}
	}
}

// nearValid builds a generator-valid minter or distributor update and makes exactly one
// field of it hostile.
func (f *fuzzEnv) nearValid() sdk.Msg {
	auth := govAuthority()
	if f.r.Intn(6) == 0 {
		auth = f.hostileString("authority")
	}
	if f.r.Intn(3) == 0 {
		// a vesting message that the scenario generator considers valid in the current state
		// (existing owner, pool, vesting account ...), one field made hostile
		for try := 0; try < 5; try++ {
			if op := f.e.genOp0(f.r, f.now); op.custom {
				f.class("nv:vesting-" + op.kind)
				if f.r.Intn(8) != 0 {
					f.mutateOneLeaf(reflect.ValueOf(op.msg).Elem())
				}
				if f.r.Intn(6) == 0 {
					f.sameAccountTwice(reflect.ValueOf(op.msg).Elem())
				}
				if m, ok := op.msg.(*vesttypes.MsgCreateVestingAccount); ok && f.r.Intn(3) == 0 {
					// a vesting period right at the limit of what the account can compute:
					// 2^63-1 seconds, 2^63 (the difference wraps), 2^63+1
					f.class("nv:period-at-int64-limit")
					m.StartTime = m.EndTime + math.MinInt64 + int64(f.r.Intn(3)) - 1
					if m.StartTime > m.EndTime { // wrapped the other way
						m.StartTime = m.EndTime + math.MinInt64
					}
				}
				return op.msg
			}
		}
		return nil
	}
	if f.r.Intn(2) == 0 {
		sds := gen.SubDistributors(f.r, gen.DistOpts{BaseAddrs: f.addrs[:4], MaxSubs: 4})
		if sds == nil {
			return nil
		}
		f.class("nv:distributor")
		m := &disttypes.MsgUpdateParams{Authority: auth, SubDistributors: cloneSubs(sds)}
		if f.r.Intn(8) != 0 {
			f.mutateOneLeaf(reflect.ValueOf(&m.SubDistributors).Elem())
		}
		return m
	}
	mc := gen.Minters(f.r, "uc4e", 24)
	minters := mc.Params.Minters
	start := mc.Params.StartTime
	if start.After(gen.Epoch.Add(time.Hour)) {
		start = gen.Epoch
	}
	f.class("nv:minter")
	i := f.r.Intn(len(minters))
	repack := func(v proto.Message) { minters[i].Config, _ = codectypes.NewAnyWithValue(v) }
	switch f.r.Intn(9) {
	case 0:
		f.class("nv:unchanged")
	case 1:
		minters[i].Config = f.hostileAny()
	case 2, 3, 4:
		// one field of an exponential configuration
		for j := range minters {
			if es, ok := minters[j].Config.GetCachedValue().(*minttypes.ExponentialStepMinting); ok {
				i = j
				c := *es
				switch f.r.Intn(3) {
				case 0:
					c.StepDuration = f.hostileDuration()
				case 1:
					c.Amount = f.hostileInt()
				default:
					c.AmountMultiplier = f.hostileDec()
				}
				repack(&c)
				break
			}
		}
	case 5:
		if lm, ok := minters[i].Config.GetCachedValue().(*minttypes.LinearMinting); ok {
			c := *lm
			c.Amount = f.hostileInt()
			repack(&c)
		}
	case 6:
		f.fillValue(reflect.ValueOf(&minters[i].EndTime).Elem(), "EndTime", 0)
	case 7:
		f.fillValue(reflect.ValueOf(&minters[i].SequenceId).Elem(), "SequenceId", 0)
	default:
		f.fillValue(reflect.ValueOf(&start).Elem(), "StartTime", 0)
	}
	if f.r.Intn(2) == 0 {
		return &minttypes.MsgUpdateMintersParams{Authority: auth, StartTime: start, Minters: minters}
	}
	d := "uc4e"
	if f.r.Intn(4) == 0 {
		d = f.hostileDenom()
	}
	return &minttypes.MsgUpdateParams{Authority: auth, MintDenom: d, StartTime: start, Minters: minters}
}

// mutateOneLeaf replaces one scalar leaf below v by a hostile value.
func (f *fuzzEnv) mutateOneLeaf(v reflect.Value) {
	type leaf struct {
		v    reflect.Value
		name string
	}
	var leaves []leaf
	var walk func(v reflect.Value, name string)
	walk = func(v reflect.Value, name string) {
		t := v.Type()
		switch {
		case t == tInt || t == tDec || t == tTime || t == tDuration || t == tAnyPtr:
			leaves = append(leaves, leaf{v, name})
		case t.Kind() == reflect.Struct:
			for i := 0; i < t.NumField(); i++ {
				if fld := t.Field(i); fld.PkgPath == "" && !strings.HasPrefix(fld.Name, "XXX_") {
					walk(v.Field(i), fld.Name)
				}
			}
		case t.Kind() == reflect.Ptr:
			leaves = append(leaves, leaf{v, name}) // may become nil
			if !v.IsNil() && t.Elem().Kind() == reflect.Struct {
				walk(v.Elem(), name)
			}
		case t.Kind() == reflect.Slice && t.Elem().Kind() != reflect.Uint8:
			for i := 0; i < v.Len(); i++ {
				walk(v.Index(i), name)
			}
		default:
			leaves = append(leaves, leaf{v, name})
		}
	}
	walk(v, "")
	if len(leaves) == 0 {
		return
	}
	l := leaves[f.r.Intn(len(leaves))]
	f.class("nv:" + l.name)
	f.fillValue(l.v, l.name, 3)
}

// sameAccountTwice makes the second address field of a message name the same account as the
// first one - in the same or in the other valid spelling (upper-case bech32) - and half of the
// time lets both name an account that does not exist.
func (f *fuzzEnv) sameAccountTwice(v reflect.Value) {
	var addrs []reflect.Value
	for i := 0; i < v.NumField(); i++ {
		if fl := v.Field(i); fl.Kind() == reflect.String && fl.CanSet() {
			if _, err := sdk.AccAddressFromBech32(fl.String()); err == nil {
				addrs = append(addrs, fl)
			}
		}
	}
	if len(addrs) < 2 {
		return
	}
	a := addrs[0].String()
	if f.r.Intn(2) == 0 {
		a = chain.NewKey(fmt.Sprintf("nobody-%d", f.r.Intn(1000))).Bech()
	}
	spell := func(s string) string {
		if f.r.Intn(2) == 0 {
			return strings.ToUpper(s)
		}
		return s
	}
	addrs[0].SetString(spell(a))
	addrs[1].SetString(spell(a))
	f.class("same-account-twice")
}
