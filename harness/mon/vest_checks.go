package mon

import (
	"fmt"
	"math/big"
	"regexp"
	"sort"
	"strings"
	"time"

	"verifharness/chain"
	"verifharness/fw"
	"verifharness/gen"

	"github.com/chain4energy/c4e-chain/x/cfevesting"
	vesttypes "github.com/chain4energy/c4e-chain/x/cfevesting/types"
	sdk "github.com/cosmos/cosmos-sdk/types"
	vestingtypes "github.com/cosmos/cosmos-sdk/x/auth/vesting/types"
)

func isModuleAddr(a string) bool {
	for _, name := range []string{"fee_collector", "distribution", "interchainaccounts", "bonded_tokens_pool", "not_bonded_tokens_pool", "gov", "transfer", "cfevesting", "cfeminter",
		"distributor_main_account", "validators_rewards_collector", "green_energy_booster_collector", "governance_booster_collector"} {
		if chain.ModuleAddr(name) == a {
			return true
		}
	}
	return false
}

func bigOf(m map[string]*big.Int, d string) *big.Int {
	if v, ok := m[d]; ok {
		return v
	}
	return new(big.Int)
}

func coinsMap(cs sdk.Coins) map[string]*big.Int {
	out := map[string]*big.Int{}
	for _, c := range cs {
		out[c.Denom] = new(big.Int).Set(c.Amount.BigInt())
	}
	return out
}

func mapsEqual(a, b map[string]*big.Int) bool {
	for d, v := range a {
		if bigOf(b, d).Cmp(v) != 0 {
			return false
		}
	}
	for d, v := range b {
		if bigOf(a, d).Cmp(v) != 0 {
			return false
		}
	}
	return true
}

func mapStr(m map[string]*big.Int) string {
	var ks []string
	for k := range m {
		ks = append(ks, k)
	}
	sort.Strings(ks)
	var parts []string
	for _, k := range ks {
		if m[k].Sign() != 0 {
			parts = append(parts, m[k].String()+k)
		}
	}
	return strings.Join(parts, ",")
}

// expectDeltas checks that the balance deltas of a transaction are exactly the expected ones.
func expectDeltas(c *fw.Case, key string, o *txOutcome, want map[string]map[string]*big.Int) bool {
	got := chain.BalanceDeltas(o.pre, o.post)
	addrs := map[string]bool{}
	for a := range got {
		addrs[a] = true
	}
	for a := range want {
		addrs[a] = true
	}
	for a := range addrs {
		g, w := got[a], want[a]
		if g == nil {
			g = map[string]*big.Int{}
		}
		if w == nil {
			w = map[string]*big.Int{}
		}
		if !mapsEqual(g, w) {
			c.ViolateD(key, map[string]string{"op": o.op.desc, "address": a, "got": mapStr(g), "want": mapStr(w)}, "%s: balance of %s changed by [%s], expected [%s]", o.op.kind, short(a, 14), mapStr(g), mapStr(w))
			return false
		}
	}
	return true
}

func addDelta(m map[string]map[string]*big.Int, addr, denom string, v *big.Int) {
	if v.Sign() == 0 {
		return
	}
	if m[addr] == nil {
		m[addr] = map[string]*big.Int{}
	}
	if m[addr][denom] == nil {
		m[addr][denom] = new(big.Int)
	}
	m[addr][denom].Add(m[addr][denom], v)
	if m[addr][denom].Sign() == 0 {
		delete(m[addr], denom)
		if len(m[addr]) == 0 {
			delete(m, addr)
		}
	}
}

func neg(v *big.Int) *big.Int { return new(big.Int).Neg(v) }

var accNumRe = regexp.MustCompile(`"account_number":"(\d+)"`)

// observe runs every oracle on one transaction outcome. Violations are keyed by
// the property they refute; the calling monitor keeps only its own.
func (e *vestEnv) observe(c *fw.Case, o *txOutcome) {
	for _, g := range e.signBytesGapsFound {
		c.ViolateD("C09/sign-bytes-do-not-cover-field", map[string]string{"field": g}, "the bytes signed in amino-JSON sign mode do not change with field %s: a signature for one message is valid for another", g)
	}
	e.signBytesGapsFound = nil
	op := o.op
	ok := o.res.Code == 0
	// ---- generic ----
	for _, d := range chain.DiffSupply(o.pre, o.post) {
		c.ViolateD("C01/supply-changed-by-tx", map[string]string{"op": op.desc}, "%s changed the supply of %s from %s to %s", op.kind, d, o.pre.Sup(d), o.post.Sup(d))
	}
	for _, d := range o.post.Denoms() {
		if o.post.SumBalances(d).Cmp(o.post.Sup(d)) != 0 {
			c.Violate("C01/supply-vs-balances", "after %s: supply of %s is %s but balances sum to %s", op.kind, d, o.post.Sup(d), o.post.SumBalances(d))
		}
	}
	if chain.IsPanicResult(o.res) {
		c.ViolateD("C20/handler-panic/"+op.kind, map[string]string{"op": op.desc, "log": short(o.res.Log, 600)}, "%s: handler panicked: %s", op.kind, short(o.res.Log, 200))
	}
	e.checkSolvency(c, o)
	// no message deletes a pool: a record that disappears takes its remainder with it
	for owner, pre := range o.prePools {
		post := map[string]bool{}
		for _, p := range o.postPools[owner] {
			post[p.Name] = true
		}
		for _, p := range pre {
			if !post[p.Name] {
				c.ViolateD("C06/pool-record-lost", map[string]string{"op": op.desc, "pool": fmt.Sprint(p)}, "after %s pool %s of %s (remainder %s, lock end %s) no longer exists: its remainder can never be withdrawn", op.kind, p.Name, short(owner, 12), p.locked(), fmtTime(p.LockEnd))
				c.ViolateD("C05/pool-record-lost", map[string]string{"op": op.desc, "pool": fmt.Sprint(p)}, "after %s pool %s of %s (remainder %s) no longer exists", op.kind, p.Name, short(owner, 12), p.locked())
			}
		}
	}
	if !op.custom {
		e.afterAccounts(o)
		return
	}
	feeD := map[string]map[string]*big.Int{}
	for _, fc := range op.fee {
		addDelta(feeD, op.signer.Bech(), fc.Denom, neg(fc.Amount.BigInt()))
		addDelta(feeD, e.feeAddr, fc.Denom, fc.Amount.BigInt())
	}
	signerExisted := o.pre.Accounts[op.signer.Bech()] != ""
	if !signerExisted {
		feeD = map[string]map[string]*big.Int{}
	}
	// ---- C09: no pre-existing account may change (beyond the permitted fields) ----
	for addr, pre := range o.pre.Accounts {
		post := o.post.Accounts[addr]
		if pre == post {
			continue
		}
		isSigner := addr == op.signer.Bech()
		ownVesting := isSigner && ok && (op.kind == "split" || op.kind == "move" || op.kind == "move-denoms")
		if post == "" || stripAccount(accJSON(pre), isSigner, ownVesting) != stripAccount(accJSON(post), isSigner, ownVesting) {
			c.ViolateD("C09/existing-account-changed/"+op.kind, map[string]string{"op": op.desc, "address": addr, "before": pre, "after": post},
				"%s (code %d) changed the existing account %s: %s -> %s", op.kind, o.res.Code, short(addr, 14), short(pre, 160), short(post, 160))
		}
	}
	// an account number identifies one account: a new account that takes the number of an
	// existing one takes over that account's entry in the index by number
	nums := map[string]string{}
	for addr, pre := range o.pre.Accounts {
		if m := accNumRe.FindStringSubmatch(pre); m != nil {
			nums[m[1]] = addr
		}
	}
	for addr, post := range o.post.Accounts {
		if o.pre.Accounts[addr] != "" {
			continue
		}
		if m := accNumRe.FindStringSubmatch(post); m != nil {
			if other, taken := nums[m[1]]; taken {
				c.ViolateD("C09/account-number-taken-from-existing-account", map[string]string{"op": op.desc, "new": post, "existing": o.pre.Accounts[other]},
					"%s created account %s with account number %s, which belongs to the existing account %s", op.kind, short(addr, 14), m[1], short(other, 14))
			}
			nums[m[1]] = addr
		}
	}
	if !ok {
		// ---- rejected: nothing but fee / sequence may change ----
		if diffs := chain.DiffStores(o.pre, o.post); len(diffs) > 0 {
			c.ViolateD("C05/rejected-tx-changed-store", map[string]interface{}{"op": op.desc, "keys": diffs, "log": short(o.res.Log, 300)}, "rejected %s changed custom-module stores: %v", op.kind, diffs)
		}
		if o.res.Codespace == "sdk" && (o.res.Code == 5 || o.res.Code == 13) && !signerExisted {
			feeD = map[string]map[string]*big.Int{}
		}
		// fee may or may not have been deducted (ante failure) - accept both exact shapes
		got := chain.BalanceDeltas(o.pre, o.post)
		if len(got) != 0 {
			expectDeltas(c, "C05/rejected-tx-moved-coins", o, feeD)
		}
		for addr := range o.post.Accounts {
			if o.pre.Accounts[addr] == "" {
				c.ViolateD("C05/rejected-tx-created-account", map[string]string{"op": op.desc, "address": addr}, "rejected %s created account %s", op.kind, addr)
			}
		}
		e.mustSucceedRules(c, o)
		return
	}
	// ---- success: per kind ----
	want := feeD
	switch op.kind {
	case "create-pool":
		addDelta(want, op.owner, vDenom, neg(op.amount))
		addDelta(want, e.moduleAddr, vDenom, op.amount)
		expectDeltas(c, "C01/vesting-op-moved-wrong-coins", o, want)
		pre, post := o.prePools[op.owner], o.postPools[op.owner]
		if len(post) != len(pre)+1 {
			c.Violate("C05/create-pool-ledger", "create-pool: owner has %d pools after, %d before", len(post), len(pre))
		} else {
			p := post[len(post)-1]
			msg := op.msg.(*vesttypes.MsgCreateVestingPool)
			if p.Name != op.pool || p.IL.Cmp(op.amount) != 0 || p.W.Sign() != 0 || p.S.Sign() != 0 || !p.LockStart.Equal(o.now) || !p.LockEnd.Equal(o.now.Add(msg.Duration)) || p.Genesis {
				c.Violate("C05/create-pool-ledger", "create-pool: new pool %+v does not match the request %s at %s", p, op.desc, fmtTime(o.now))
			}
			if !p.LockEnd.Equal(o.now.Add(msg.Duration)) {
				// C06: the pool is locked for as long as its owner asked for
				c.Violate("C06/lock-end-not-as-requested", "pool %s was created at %s with a lock of %s, its lock end is %s", p.Name, fmtTime(o.now), msg.Duration, fmtTime(p.LockEnd))
			}
			if p.Genesis {
				// lineage (C17): only pools listed in the genesis file are genesis pools
				c.Violate("C17/created-pool-marked-genesis", "pool %s created by a message of %s is flagged as a genesis pool", p.Name, short(op.owner, 12))
			}
			e.bounds = append(e.bounds, p.LockEnd)
			for i := range pre {
				if fmt.Sprint(pre[i]) != fmt.Sprint(post[i]) {
					c.Violate("C05/create-pool-ledger", "create-pool changed another pool: %v -> %v", pre[i], post[i])
				}
			}
		}
		e.cov["pools_created"]++
	case "withdraw", "send":
		paid, okW := e.checkWithdrawLedger(c, o)
		if !okW {
			return
		}
		addDelta(want, op.owner, vDenom, paid)
		addDelta(want, e.moduleAddr, vDenom, neg(paid))
		if op.kind == "withdraw" {
			expectDeltas(c, "C06/withdraw-paid-wrong-amount", o, want)
			if w, okd := decodeWithdrawn(o.res.Data); !okd || w.Denom != vDenom || w.Amount.BigInt().Cmp(paid) != 0 {
				c.ViolateD("C06/withdraw-response", map[string]string{"op": op.desc}, "withdraw response says %v, matured remainder paid is %s", w, paid)
			}
			if paid.Sign() > 0 {
				e.cov["withdrawals_positive"]++
			}
		} else {
			e.checkSend(c, o, paid, want)
		}
		e.checkWithdrawEvents(c, o)
	case "create-account":
		for _, cn := range op.coins {
			addDelta(want, op.owner, cn.Denom, neg(cn.Amount.BigInt()))
			addDelta(want, op.to, cn.Denom, cn.Amount.BigInt())
		}
		expectDeltas(c, "C08/create-account-transfer", o, want)
		if o.pre.Accounts[op.to] != "" {
			c.Violate("C08/recipient-existed", "create-account succeeded for existing address %s", op.to)
		}
		v := parseCVA(o.post.Accounts[op.to])
		if v == nil || v.Type != cvaType || !mapsEqual(v.OV, coinsMap(op.coins)) || v.Start != op.start || v.End != op.end {
			c.ViolateD("C08/create-account-schedule", map[string]string{"op": op.desc, "account": o.post.Accounts[op.to]}, "create-account: account %s does not vest %s over [%d,%d]", short(o.post.Accounts[op.to], 300), op.coins, op.start, op.end)
		}
		if k, okk := e.keys[op.to]; okk {
			e.cvaKeys = append(e.cvaKeys, k)
			if op.end < int64(1)<<40 {
				e.bounds = append(e.bounds, time.Unix(op.start, 0), time.Unix(op.end, 0))
			}
		}
		e.cov["accounts_created_directly"]++
	case "split", "move", "move-denoms":
		e.checkSplit(c, o, want)
	}
	e.afterAccounts(o)
}

// afterAccounts keeps the harness' own list of continuous vesting accounts current.
func (e *vestEnv) afterAccounts(o *txOutcome) {}

// checkSolvency: C05 identities on the post state.
func (e *vestEnv) checkSolvency(c *fw.Case, o *txOutcome) {
	sum := new(big.Int)
	for owner, ps := range o.postPools {
		for _, p := range ps {
			if p.W.Sign() < 0 || p.S.Sign() < 0 || new(big.Int).Add(p.W, p.S).Cmp(p.IL) > 0 {
				c.ViolateD("C05/pool-bounds", map[string]string{"op": o.op.desc}, "after %s: pool %s of %s has initially_locked=%s sent=%s withdrawn=%s", o.op.kind, p.Name, short(owner, 12), p.IL, p.S, p.W)
			}
			sum.Add(sum, p.locked())
		}
	}
	// what a restart would start from: the module's exported genesis lists every stored pool
	// unchanged, used-up ones included (their owners still query and withdraw - nothing)
	if p := safeCall("ExportGenesis", func() {
		exported := map[string]string{}
		for _, avp := range cfevesting.ExportGenesis(e.n.Ctx(), e.n.App.CfevestingKeeper).AccountVestingPools {
			for _, p := range avp.VestingPools {
				exported[avp.Owner+"/"+p.Name] = fmt.Sprint(p.InitiallyLocked, p.Sent, p.Withdrawn, p.LockEnd.UnixNano(), p.GenesisPool, p.VestingType)
			}
		}
		for _, avp := range e.n.App.CfevestingKeeper.GetAllAccountVestingPools(e.n.Ctx()) {
			for _, p := range avp.VestingPools {
				if exported[avp.Owner+"/"+p.Name] != fmt.Sprint(p.InitiallyLocked, p.Sent, p.Withdrawn, p.LockEnd.UnixNano(), p.GenesisPool, p.VestingType) {
					c.ViolateD("C06/pool-not-exported", map[string]string{"op": o.op.desc, "pool": p.String()}, "after %s: the exported cfevesting genesis does not carry pool %s of %s as stored (remainder %s)", o.op.kind, p.Name, short(avp.Owner, 12), p.GetCurrentlyLocked())
					c.ViolateD("C05/pool-not-exported", map[string]string{"op": o.op.desc, "pool": p.String()}, "after %s: the exported cfevesting genesis does not carry pool %s of %s as stored", o.op.kind, p.Name, short(avp.Owner, 12))
					return
				}
			}
		}
	}); p != nil {
		c.ViolateD("C20/export-panic", p.Stack, "cfevesting ExportGenesis panicked: %s", short(p.Value, 200))
	}
	if bal := o.post.Bal(e.moduleAddr, vDenom); bal.Cmp(sum) != 0 {
		c.ViolateD("C05/module-balance-vs-pools", map[string]string{"op": o.op.desc, "code": fmt.Sprint(o.res.Code)}, "after %s (code %d): vesting module account holds %s but pools lock %s", o.op.kind, o.res.Code, bal, sum)
	}
}

// checkWithdrawLedger verifies the (explicit or implicit) withdrawal part:
// matured pools are emptied, others untouched. Returns the amount paid.
func (e *vestEnv) checkWithdrawLedger(c *fw.Case, o *txOutcome) (*big.Int, bool) {
	pre, post := o.prePools[o.op.owner], o.postPools[o.op.owner]
	if len(pre) != len(post) {
		c.Violate("C05/pool-count-changed", "%s changed the number of pools of the owner: %d -> %d", o.op.kind, len(pre), len(post))
		return nil, false
	}
	paid := new(big.Int)
	matured, lockedPools := 0, 0
	for i := range pre {
		dW := new(big.Int).Sub(post[i].W, pre[i].W)
		isMatured := !o.now.Before(pre[i].LockEnd)
		wantW := new(big.Int)
		if isMatured {
			wantW = pre[i].locked()
			matured++
			if o.now.Equal(pre[i].LockEnd) && wantW.Sign() > 0 {
				e.cov["withdraw_exactly_at_lock_end"]++
			}
		} else {
			lockedPools++
		}
		if dW.Cmp(wantW) != 0 {
			c.ViolateD("C06/withdrawn-delta", map[string]string{"op": o.op.desc, "pool": pre[i].Name, "lock_end": fmtTime(pre[i].LockEnd), "now": fmtTime(o.now)},
				"%s at %s: pool %s (lock end %s, remainder %s) had withdrawn grow by %s, expected %s", o.op.kind, fmtTime(o.now), pre[i].Name, fmtTime(pre[i].LockEnd), pre[i].locked(), dW, wantW)
			return nil, false
		}
		paid.Add(paid, dW)
		if post[i].IL.Cmp(pre[i].IL) != 0 || post[i].Name != pre[i].Name || !post[i].LockEnd.Equal(pre[i].LockEnd) || post[i].Genesis != pre[i].Genesis || post[i].Type != pre[i].Type {
			c.Violate("C05/pool-fields-changed", "%s changed static fields of pool %s", o.op.kind, pre[i].Name)
			return nil, false
		}
	}
	if matured > 0 && lockedPools > 0 && paid.Sign() > 0 {
		e.cov["withdraw_mixed_matured_and_locked"]++
	}
	return paid, true
}

func (e *vestEnv) typeInfo(name string) *vtInfo {
	for i := range e.types {
		if e.types[i].name == name {
			return &e.types[i]
		}
	}
	return nil
}

func (e *vestEnv) checkSend(c *fw.Case, o *txOutcome, paid *big.Int, want map[string]map[string]*big.Int) {
	op := o.op
	pre, post := o.prePools[op.owner], o.postPools[op.owner]
	idx := -1
	for i := range pre {
		if pre[i].Name == op.pool {
			idx = i
		}
	}
	if idx < 0 {
		c.Violate("C08/send-from-unknown-pool", "send succeeded but the owner has no pool %q", op.pool)
		return
	}
	for i := range pre {
		dS := new(big.Int).Sub(post[i].S, pre[i].S)
		wantS := new(big.Int)
		if i == idx {
			wantS = op.amount
		}
		if dS.Cmp(wantS) != 0 {
			c.ViolateD("C08/sent-counter", map[string]string{"op": op.desc}, "send of %s from pool %s: sent counter of pool %s grew by %s", op.amount, op.pool, pre[i].Name, dS)
			return
		}
	}
	p := pre[idx]
	avail := p.locked()
	if !o.now.Before(p.LockEnd) {
		avail = new(big.Int) // the implicit withdrawal emptied the matured pool
	}
	if op.amount.Cmp(avail) > 0 {
		c.ViolateD("C08/oversend-succeeded", map[string]string{"op": op.desc}, "send of %s succeeded although only %s was still locked in pool %s", op.amount, avail, p.Name)
		return
	}
	if o.now.Before(p.LockEnd) && op.amount.Sign() > 0 {
		e.cov["sends_from_locked_pool"]++
	}
	if op.amount.Cmp(avail) == 0 && op.amount.Sign() > 0 {
		e.cov["exact_remainder_sends"]++
	}
	addDelta(want, e.moduleAddr, vDenom, neg(op.amount))
	addDelta(want, op.to, vDenom, op.amount)
	expectDeltas(c, "C08/send-transfer", o, want)
	if o.pre.Accounts[op.to] != "" {
		c.Violate("C08/recipient-existed", "send succeeded for existing address %s", op.to)
		if o.now.Before(p.LockEnd) {
			// C06: coins leave a locked pool only into a newly created vesting account
			c.ViolateD("C06/locked-pool-paid-existing-account", map[string]string{"op": op.desc, "before": o.pre.Accounts[op.to], "after": o.post.Accounts[op.to]},
				"send of %s from pool %s, locked until %s, went to the already existing account %s", op.amount, p.Name, fmtTime(p.LockEnd), short(o.pre.Accounts[op.to], 200))
		}
		return
	}
	if pv := parseCVA(o.post.Accounts[op.to]); o.now.Before(p.LockEnd) && (pv == nil || pv.Type != cvaType) {
		c.ViolateD("C06/locked-pool-paid-non-vesting-account", map[string]string{"op": op.desc, "account": o.post.Accounts[op.to]}, "send from pool %s, locked until %s: recipient is %s", p.Name, fmtTime(p.LockEnd), short(o.post.Accounts[op.to], 200))
	}
	vt := e.typeInfo(p.Type)
	if vt == nil {
		c.Violate("C08/unknown-type", "send succeeded for a pool with unknown vesting type %s", p.Type)
		return
	}
	v := parseCVA(o.post.Accounts[op.to])
	if v == nil || v.Type != cvaType {
		c.ViolateD("C08/recipient-not-continuous-vesting", map[string]string{"op": op.desc, "account": o.post.Accounts[op.to]}, "send: recipient is %s", short(o.post.Accounts[op.to], 200))
		return
	}
	// original vesting = floor(amount * (1 - free))
	one := big.NewRat(1, 1)
	ovRat := new(big.Rat).Mul(new(big.Rat).SetInt(op.amount), new(big.Rat).Sub(one, vt.free))
	ov := new(big.Int).Quo(ovRat.Num(), ovRat.Denom())
	wantOV := map[string]*big.Int{}
	if ov.Sign() > 0 {
		wantOV[vDenom] = ov
	}
	var wantStart, wantEnd int64
	if op.restart {
		wantStart = o.now.Add(vt.lockup).Unix()
		wantEnd = o.now.Add(vt.lockup).Add(vt.vesting).Unix()
	} else {
		st := p.LockEnd
		if st.Before(o.now) {
			st = o.now
		}
		wantStart, wantEnd = st.Unix(), p.LockEnd.Unix()
	}
	if !mapsEqual(v.OV, wantOV) || v.Start != wantStart || v.End != wantEnd {
		c.ViolateD("C08/send-schedule", map[string]string{"op": op.desc, "account": o.post.Accounts[op.to], "type": fmt.Sprintf("%+v free=%s", *vt, vt.free.FloatString(18)), "now": fmtTime(o.now), "lock_end": fmtTime(p.LockEnd)},
			"send %s (restart=%v): recipient vests [%s] over [%d,%d], expected [%s] over [%d,%d]", op.amount, op.restart, mapStr(v.OV), v.Start, v.End, mapStr(wantOV), wantStart, wantEnd)
		return
	}
	if !ovRat.IsInt() && vt.free.Sign() > 0 && vt.free.Cmp(one) < 0 {
		e.cov["sends_with_fractional_free_part"]++
	}
	// event
	evs := typedEvents(o.res.Events, "cfevesting.NewVestingAccountFromVestingPool")
	if len(evs) != 1 || chain.Unq(evs[0].Attrs["amount"]) != op.amount.String()+vDenom {
		c.ViolateD("C18/send-event-amount", map[string]string{"op": op.desc}, "send of %s: %d NewVestingAccountFromVestingPool events, amount attr %v", op.amount, len(evs), evs)
	}
	// lineage shadow
	e.traced[op.to] = true
	if p.Genesis {
		e.derived[op.to] = true
	}
	e.depth[op.to] = 1
	if k, okk := e.keys[op.to]; okk {
		e.cvaKeys = append(e.cvaKeys, k)
		e.bounds = append(e.bounds, time.Unix(wantStart, 0), time.Unix(wantEnd, 0))
	}
	e.cov["sends_ok"]++
}

func (e *vestEnv) checkWithdrawEvents(c *fw.Case, o *txOutcome) {
	pre, post := o.prePools[o.op.owner], o.postPools[o.op.owner]
	evs := typedEvents(o.res.Events, "cfevesting.WithdrawAvailable")
	wantEv := map[string]*big.Int{}
	for i := range pre {
		d := new(big.Int).Sub(post[i].W, pre[i].W)
		if d.Sign() > 0 {
			if wantEv[pre[i].Name] == nil {
				wantEv[pre[i].Name] = new(big.Int)
			}
			wantEv[pre[i].Name].Add(wantEv[pre[i].Name], d)
		}
	}
	gotEv := map[string]*big.Int{}
	for _, ev := range evs {
		name := chain.Unq(ev.Attrs["vesting_pool_name"])
		amt := strings.TrimSuffix(chain.Unq(ev.Attrs["amount"]), vDenom)
		v, okp := new(big.Int).SetString(amt, 10)
		if !okp {
			c.Violate("C18/withdraw-event-unparsable", "withdraw event amount %q", ev.Attrs["amount"])
			return
		}
		if _, dup := gotEv[name]; dup {
			gotEv[name] = new(big.Int).Add(gotEv[name], v)
		} else {
			gotEv[name] = v
		}
		if chain.Unq(ev.Attrs["owner"]) != o.op.owner {
			c.Violate("C18/withdraw-event-owner", "withdraw event owner %s, expected %s", ev.Attrs["owner"], o.op.owner)
			return
		}
	}
	names := map[string]bool{}
	for k := range wantEv {
		names[k] = true
	}
	for k := range gotEv {
		names[k] = true
	}
	for _, n := range sortedKeys(names) {
		w, g := wantEv[n], gotEv[n]
		if w == nil {
			c.ViolateD("C18/withdraw-event-for-unpaid-pool", map[string]string{"op": o.op.desc, "pool": n}, "%s: WithdrawAvailable event for pool %s (amount %s) from which nothing was withdrawn", o.op.kind, n, g)
			return
		}
		if g == nil || g.Cmp(w) != 0 {
			c.ViolateD("C18/withdraw-event-amount", map[string]string{"op": o.op.desc, "pool": n}, "%s: WithdrawAvailable event for pool %s reports %v, withdrawn from that pool: %s", o.op.kind, n, g, w)
			return
		}
	}
	if len(wantEv) >= 2 {
		e.cov["withdrawals_covering_two_or_more_pools"]++
		// a not-yet-matured pool listed between two matured ones
		first, last, between := -1, -1, false
		for i := range pre {
			if new(big.Int).Sub(post[i].W, pre[i].W).Sign() > 0 {
				if first < 0 {
					first = i
				}
				last = i
			}
		}
		for i := first + 1; i < last; i++ {
			if new(big.Int).Sub(post[i].W, pre[i].W).Sign() == 0 {
				between = true
			}
		}
		if between {
			e.cov["withdrawals_with_unpaid_pool_between_paid_ones"]++
		}
	}
}

func (e *vestEnv) checkSplit(c *fw.Case, o *txOutcome, want map[string]map[string]*big.Int) {
	op := o.op
	from := op.owner
	preV := parseCVA(o.pre.Accounts[from])
	if preV == nil || preV.Type != cvaType {
		c.Violate("C07/split-from-non-vesting", "%s succeeded from %s which is not a continuous vesting account", op.kind, from)
		return
	}
	amount := map[string]*big.Int{}
	switch op.kind {
	case "split":
		amount = coinsMap(op.coins)
	case "move":
		for d, v := range o.preLocked {
			if v.Sign() > 0 {
				amount[d] = v
			}
		}
	case "move-denoms":
		for _, d := range op.denoms {
			if v := bigOf(o.preLocked, d); v.Sign() > 0 {
				amount[d] = v
			}
		}
	}
	// locked coins of the sender drop by exactly the amount, spendable unchanged (fee aside)
	for d := range unionKeys(o.preLocked, o.postLocked, amount) {
		got := new(big.Int).Sub(bigOf(o.preLocked, d), bigOf(o.postLocked, d))
		if got.Cmp(bigOf(amount, d)) != 0 {
			c.ViolateD("C07/unlocked-amount", map[string]string{"op": op.desc, "now": fmtTime(o.now), "sender_before": o.pre.Accounts[from], "sender_after": o.post.Accounts[from]},
				"%s of %s %s: sender's locked coins dropped by %s (locked before %s, after %s)", op.kind, bigOf(amount, d), d, got, bigOf(o.preLocked, d), bigOf(o.postLocked, d))
			return
		}
	}
	// the sender keeps a schedule that still covers what it has delegated: the requested amount
	// comes out of the undelegated locked coins only, so the original vesting that remains is
	// at least the delegated vesting (x/auth relies on that when the delegation comes back)
	if postV := parseCVA(o.post.Accounts[from]); postV != nil {
		for d, dv := range postV.DV {
			if dv.Cmp(bigOf(postV.OV, d)) > 0 {
				c.ViolateD("C07/sender-schedule-below-delegated", map[string]string{"op": op.desc, "now": fmtTime(o.now), "sender_before": o.pre.Accounts[from], "sender_after": o.post.Accounts[from]},
					"%s of %s %s: the sender's original vesting of %s is %s afterwards, below its delegated vesting %s", op.kind, bigOf(amount, d), d, d, bigOf(postV.OV, d), dv)
				return
			}
		}
	}
	for d := range unionKeys(o.preSpendable, o.postSpendable, nil) {
		got := new(big.Int).Sub(bigOf(o.postSpendable, d), bigOf(o.preSpendable, d))
		wantD := neg(op.fee.AmountOf(d).BigInt())
		if got.Cmp(wantD) != 0 {
			c.ViolateD("C07/spendable-changed", map[string]string{"op": op.desc}, "%s: sender's spendable %s changed by %s (fee %s)", op.kind, d, got, o.fee)
			return
		}
	}
	for d, v := range amount {
		addDelta(want, from, d, neg(v))
		addDelta(want, op.to, d, v)
	}
	expectDeltas(c, "C07/split-transfer", o, want)
	if o.pre.Accounts[op.to] != "" {
		c.Violate("C07/recipient-existed", "%s succeeded for existing address %s", op.kind, op.to)
		return
	}
	v := parseCVA(o.post.Accounts[op.to])
	wantStart := o.now.Unix()
	if preV.Start > wantStart {
		wantStart = preV.Start
	}
	if v == nil || v.Type != cvaType || !mapsEqual(v.OV, amount) || v.End != preV.End || v.Start != wantStart {
		c.ViolateD("C07/recipient-schedule", map[string]string{"op": op.desc, "recipient": o.post.Accounts[op.to], "sender_before": o.pre.Accounts[from]},
			"%s: recipient %s, expected original vesting [%s] start %d end %d", op.kind, short(o.post.Accounts[op.to], 300), mapStr(amount), wantStart, preV.End)
		return
	}
	// lineage propagation
	if e.traced[from] {
		e.traced[op.to] = true
		if e.derived[from] {
			e.derived[op.to] = true
		}
		e.depth[op.to] = e.depth[from] + 1
		if int64(e.depth[op.to]) > e.cov["max_lineage_depth"] {
			e.cov["max_lineage_depth"] = int64(e.depth[op.to])
		}
	}
	if k, okk := e.keys[op.to]; okk {
		e.cvaKeys = append(e.cvaKeys, k)
	}
	e.cov["splits_ok"]++
	if len(preV.DV) > 0 {
		e.cov["splits_with_delegated_vesting"]++
	}
}

func unionKeys(ms ...map[string]*big.Int) map[string]bool {
	out := map[string]bool{}
	for _, m := range ms {
		for k := range m {
			out[k] = true
		}
	}
	return out
}

// mustSucceedRules: the two success predictions the properties state.
func (e *vestEnv) mustSucceedRules(c *fw.Case, o *txOutcome) {
	op := o.op
	if o.pre.Accounts[op.signer.Bech()] == "" || op.gas > 0 {
		return // (a tight gas limit is a legitimate reason to fail)
	}
	// the fee must have been affordable
	switch op.kind {
	case "create-account":
		// a funded sender, a fresh recipient, a schedule that ends after it starts: nothing
		// stands in the way (in whatever order the message lists its coins)
		if op.owner != op.signer.Bech() || op.respelled || op.to == op.owner || o.pre.Accounts[op.to] != "" || isModuleAddr(op.to) || op.end <= op.start || op.start <= 0 || !op.fee.IsZero() {
			return
		}
		if _, err := sdk.AccAddressFromBech32(op.to); err != nil {
			return
		}
		for _, cn := range op.coins {
			if !cn.Amount.IsPositive() || cn.Amount.BigInt().Cmp(bigOf(o.preSpendable, cn.Denom)) > 0 {
				return
			}
		}
		c.ViolateD("C08/valid-create-account-rejected", map[string]string{"op": op.desc, "log": short(o.res.Log, 400)}, "direct creation of a vesting account with %s for a fresh address was rejected: %s", op.coins, short(o.res.Log, 200))
	case "withdraw":
		// whoever owns pools can sweep them at any time (before the lock end it pays nothing)
		if op.owner != op.signer.Bech() || op.respelled || len(o.prePools[op.owner]) == 0 || !op.fee.IsZero() {
			return
		}
		c.ViolateD("C06/valid-withdraw-rejected", map[string]string{"op": op.desc, "log": short(o.res.Log, 400)}, "withdraw-all of an owner with %d pools was rejected: %s", len(o.prePools[op.owner]), short(o.res.Log, 200))
	case "send":
		if op.owner != op.signer.Bech() || op.to == op.owner || o.pre.Accounts[op.to] != "" || isModuleAddr(op.to) || op.amount.Sign() < 0 {
			return
		}
		if _, aerr := sdk.AccAddressFromBech32(op.to); aerr != nil {
			return
		}
		if op.respelled {
			// pools are looked up under the owner string as written: the upper-case spelling
			// of an owner is refused ("no vesting pools found"). C08 does not say that every
			// spelling must be served; that the refusal changes nothing is checked above.
			c.Count("respelled_sends_refused", 1)
			return
		}
		pre := o.prePools[op.owner]
		p := findPool(pre, op.pool)
		if p == nil || e.typeInfo(p.Type) == nil {
			return
		}
		avail := p.locked()
		if !o.now.Before(p.LockEnd) {
			avail = new(big.Int)
		}
		if op.amount.Cmp(avail) <= 0 {
			c.ViolateD("C08/valid-send-rejected", map[string]string{"op": op.desc, "log": short(o.res.Log, 400)}, "send of %s (<= %s still locked) to a fresh address was rejected: %s", op.amount, avail, short(o.res.Log, 200))
		}
	case "split", "move", "move-denoms":
		if op.owner != op.signer.Bech() || o.pre.Accounts[op.to] != "" || isModuleAddr(op.to) || op.to == op.owner {
			return
		}
		preV := parseCVA(o.pre.Accounts[op.owner])
		if preV == nil || preV.Type != cvaType {
			return
		}
		amount := map[string]*big.Int{}
		switch op.kind {
		case "split":
			amount = coinsMap(op.coins)
		case "move":
			amount = o.preLocked
		case "move-denoms":
			for _, d := range op.denoms {
				if d == "nonexistent" {
					return
				}
				if v := bigOf(o.preLocked, d); v.Sign() > 0 {
					amount[d] = v
				}
			}
		}
		nonzero := false
		for d, v := range amount {
			if v.Sign() > 0 {
				nonzero = true
			}
			if v.Cmp(bigOf(o.preLocked, d)) > 0 {
				return
			}
		}
		if !nonzero {
			return
		}
		c.ViolateD("C07/valid-split-rejected", map[string]string{"op": op.desc, "log": short(o.res.Log, 400), "locked": mapStr(o.preLocked), "sender": o.pre.Accounts[op.owner], "now": fmtTime(o.now)},
			"%s of [%s] (locked [%s]) to a fresh address was rejected: %s", op.kind, mapStr(amount), mapStr(o.preLocked), short(o.res.Log, 200))
	}
}

// checkLineageAndSummaries: C17 on the current state.
func (e *vestEnv) checkLineageAndSummaries(c *fw.Case, now time.Time, where string) {
	ctx := e.n.Ctx()
	k := e.n.App.CfevestingKeeper
	traces := k.GetAllVestingAccountTrace(ctx)
	seen := map[string]bool{}
	for _, t := range traces {
		seen[t.Address] = true
		isDerived := t.Genesis || t.FromGenesisPool || t.FromGenesisAccount
		if !e.traced[t.Address] {
			c.Violate("C17/unexpected-trace", "%s: address %s is traced but the lineage model has no record of it", where, t.Address)
			return
		}
		if isDerived != e.derived[t.Address] {
			c.ViolateD("C17/lineage-flag", map[string]string{"trace": t.String()}, "%s: address %s recorded genesis-derived=%v, lineage model says %v (depth %d)", where, short(t.Address, 14), isDerived, e.derived[t.Address], e.depth[t.Address])
			return
		}
	}
	for a := range e.traced {
		if !seen[a] {
			c.Violate("C17/missing-trace", "%s: address %s should be traced but is not", where, a)
			return
		}
	}
	// the lineage survives a restart only through the module's exported genesis: it lists
	// every stored trace, unchanged
	if p := safeCall("ExportGenesis", func() {
		exported := map[string]string{}
		for _, t := range cfevesting.ExportGenesis(ctx, k).VestingAccountTraces {
			exported[t.Address] = t.String()
		}
		for _, t := range traces {
			if exported[t.Address] != t.String() {
				c.ViolateD("C17/trace-not-exported", map[string]string{"stored": t.String(), "exported": exported[t.Address]}, "%s: the exported cfevesting genesis does not carry the stored trace of %s (exported: %q)", where, short(t.Address, 14), exported[t.Address])
				return
			}
		}
	}); p != nil {
		c.ViolateD("C20/export-panic", p.Stack, "cfevesting ExportGenesis panicked: %s", short(p.Value, 200))
	}
	if uint64(len(traces)) > k.GetVestingAccountTraceCount(ctx) {
		c.Violate("C17/trace-count", "%s: %d traces but count %d", where, len(traces), k.GetVestingAccountTraceCount(ctx))
	}
	// summaries
	modBal := e.n.App.BankKeeper.GetBalance(ctx, sdk.MustAccAddressFromBech32(e.moduleAddr), vDenom).Amount.BigInt()
	genesisPools := new(big.Int)
	for _, ps := range e.pools() {
		for _, p := range ps {
			if p.Genesis {
				genesisPools.Add(genesisPools, p.locked())
			}
		}
	}
	sumAll, sumAllLocked, sumGen, sumGenLocked := new(big.Int), new(big.Int), new(big.Int), new(big.Int)
	for a := range e.traced {
		addr := sdk.MustAccAddressFromBech32(a)
		acc := e.n.App.AccountKeeper.GetAccount(ctx, addr)
		cva, okc := acc.(*vestingtypes.ContinuousVestingAccount)
		if !okc {
			continue
		}
		vesting := cva.GetVestingCoins(now).AmountOf(vDenom).BigInt()
		locked := cva.LockedCoins(now).AmountOf(vDenom).BigInt()
		sumAll.Add(sumAll, vesting)
		sumAllLocked.Add(sumAllLocked, locked)
		if e.derived[a] {
			sumGen.Add(sumGen, vesting)
			sumGenLocked.Add(sumGenLocked, locked)
		}
	}
	check := func(name string, pools, accs, lockedSum *big.Int, all, inPools, inAcc, deleg sdk.Int, err error) {
		if err != nil {
			c.Violate("C17/summary-query-error", "%s: %s query failed: %v", where, name, err)
			return
		}
		wantAll := new(big.Int).Add(pools, accs)
		wantDel := new(big.Int).Sub(accs, lockedSum)
		if inPools.BigInt().Cmp(pools) != 0 || inAcc.BigInt().Cmp(accs) != 0 || all.BigInt().Cmp(wantAll) != 0 || deleg.BigInt().Cmp(wantDel) != 0 {
			c.ViolateD("C17/summary-mismatch/"+name, map[string]string{"where": where, "now": fmtTime(now)},
				"%s: %s reports all=%s pools=%s accounts=%s delegated=%s; recomputed all=%s pools=%s accounts=%s delegated=%s", where, name, all, inPools, inAcc, deleg, wantAll, pools, accs, wantDel)
		}
		if wantDel.Sign() > 0 {
			e.cov["summaries_with_delegated_vesting"]++
		}
	}
	r1, err1 := k.VestingsSummary(sdk.WrapSDKContext(ctx), &vesttypes.QueryVestingsSummaryRequest{})
	if r1 != nil {
		check("VestingsSummary", modBal, sumAll, sumAllLocked, r1.VestingAllAmount, r1.VestingInPoolsAmount, r1.VestingInAccountsAmount, r1.DelegatedVestingAmount, err1)
	} else {
		c.Violate("C17/summary-query-error", "%s: VestingsSummary failed: %v", where, err1)
	}
	r2, err2 := k.GenesisVestingsSummary(sdk.WrapSDKContext(ctx), &vesttypes.QueryGenesisVestingsSummaryRequest{})
	if r2 != nil {
		check("GenesisVestingsSummary", genesisPools, sumGen, sumGenLocked, r2.VestingAllAmount, r2.VestingInPoolsAmount, r2.VestingInAccountsAmount, r2.DelegatedVestingAmount, err2)
	} else {
		c.Violate("C17/summary-query-error", "%s: GenesisVestingsSummary failed: %v", where, err2)
	}
	e.cov["summary_checks"]++
}

// queryVsWithdraw (C06): the VestingPools query taken right before a withdrawal must
// report exactly what the withdrawal then pays, and agree with the store.
func (e *vestEnv) poolQuery(c *fw.Case, owner string, now time.Time) (*big.Int, bool) {
	ctx := e.n.Ctx()
	resp, err := e.n.App.CfevestingKeeper.VestingPools(sdk.WrapSDKContext(ctx), &vesttypes.QueryVestingPoolsRequest{Owner: owner})
	if err != nil {
		return nil, false
	}
	ps := e.pools()[owner]
	if len(resp.VestingPools) != len(ps) {
		c.Violate("C06/query-pool-count", "VestingPools query lists %d pools, store has %d", len(resp.VestingPools), len(ps))
		return nil, false
	}
	total := new(big.Int)
	for i, info := range resp.VestingPools {
		w, ok1 := new(big.Int).SetString(info.Withdrawable, 10)
		cl, ok2 := new(big.Int).SetString(info.CurrentlyLocked, 10)
		sa, ok3 := new(big.Int).SetString(info.SentAmount, 10)
		if !ok1 || !ok2 || !ok3 {
			c.Violate("C06/query-unparsable", "VestingPools query returned %+v", info)
			return nil, false
		}
		wantW := new(big.Int)
		if !now.Before(ps[i].LockEnd) {
			wantW = ps[i].locked()
		}
		if w.Cmp(wantW) != 0 || cl.Cmp(ps[i].locked()) != 0 || sa.Cmp(ps[i].S) != 0 || info.Name != ps[i].Name {
			c.ViolateD("C06/query-vs-store", map[string]string{"now": fmtTime(now), "lock_end": fmtTime(ps[i].LockEnd)}, "VestingPools query for pool %s: withdrawable=%s currently_locked=%s sent=%s; store says withdrawable=%s locked=%s sent=%s", info.Name, w, cl, sa, wantW, ps[i].locked(), ps[i].S)
			return nil, false
		}
		total.Add(total, w)
	}
	return total, true
}

var _ = gen.Epoch
