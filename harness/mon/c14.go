package mon

import (
	"fmt"
	"math/big"
	"math/rand"
	"sort"
	"strings"

	"verifharness/fw"
	"verifharness/gen"
	"verifharness/model"

	distkeeper "github.com/chain4energy/c4e-chain/x/cfedistributor/keeper"
	disttypes "github.com/chain4energy/c4e-chain/x/cfedistributor/types"
	sdk "github.com/cosmos/cosmos-sdk/types"
)

const c14Schedules = 48

func init() {
	fw.Register(&fw.Monitor{
		ID:    "C14",
		Level: "fault_enumeration",
		Rule: "case = (generated valid sub-distributor configuration, fault schedule). The real distributor keeper is built around a fault-injecting bank wrapper (every SendCoinsFromModuleToModule / FromAccountToModule / FromModuleToAccount / BurnCoins call can be made to fail without touching state). " +
			"Per configuration 48 schedules: each of the first 30 bank calls failing alone (exhaustive), 8 pairs inside a 4-call window, 6 random subsets (p=0.1/0.5/0.9), 4 'kind X fails in every call for k blocks'; 6 faulty blocks then a 5-block fault-free suffix. " +
			"After every block: C03 identities on the faulty run and holdings vs the exact model fed the same failures; at the end every address' balance+remains and the burned total are compared with a fault-free twin (<=1 base unit). Non-trivial: >=1 injected fault hit a call that would have moved coins. Distinct by (configuration, schedule).",
		Assumptions:   []string{"injected faults return an error before any state change (the natural partial failure of x/bank on locked coins is covered by the locked-source account of the generator and was defect D18)"},
		Cases:         func(t string) int { return tierN(t, 50, 2500) * c14Schedules },
		MinNontrivial: func(t string) int { return tierN(t, 400, 20000) },
		Run:           runC14,
	})
}

type faultBank struct {
	inner    disttypes.BankKeeper
	env      *distEnv
	idx      int // global call index
	fail     func(idx int, kind string, block int) bool
	hits     int
	kindHits map[string]int
	sweepF   map[string][]bool // per key: outcome (failed?) of every sweep call in this block
	payoutF  map[string]bool
}

func (f *faultBank) decide(kind string) bool {
	i := f.idx
	f.idx++
	if f.fail != nil && f.fail(i, kind, f.env.block) {
		f.hits++
		f.kindHits[kind]++
		return true
	}
	return false
}

var errInjected = fmt.Errorf("injected bank failure")

func (f *faultBank) SpendableCoins(ctx sdk.Context, addr sdk.AccAddress) sdk.Coins {
	return f.inner.SpendableCoins(ctx, addr)
}
func (f *faultBank) GetAllBalances(ctx sdk.Context, addr sdk.AccAddress) sdk.Coins {
	return f.inner.GetAllBalances(ctx, addr)
}
func (f *faultBank) SendCoinsFromAccountToModule(ctx sdk.Context, senderAddr sdk.AccAddress, recipientModule string, amt sdk.Coins) error {
	key := model.KBase + "-" + senderAddr.String()
	if f.decide("sweep-base") {
		f.sweepF[key] = append(f.sweepF[key], true)
		return errInjected
	}
	err := f.inner.SendCoinsFromAccountToModule(ctx, senderAddr, recipientModule, amt)
	f.sweepF[key] = append(f.sweepF[key], err != nil)
	return err
}
func (f *faultBank) SendCoinsFromModuleToAccount(ctx sdk.Context, senderModule string, recipientAddr sdk.AccAddress, amt sdk.Coins) error {
	if f.decide("payout-base") {
		f.payoutF[model.KBase+"-"+recipientAddr.String()] = true
		return errInjected
	}
	err := f.inner.SendCoinsFromModuleToAccount(ctx, senderModule, recipientAddr, amt)
	if err != nil {
		f.payoutF[model.KBase+"-"+recipientAddr.String()] = true
	}
	return err
}
func (f *faultBank) SendCoinsFromModuleToModule(ctx sdk.Context, senderModule, recipientModule string, amt sdk.Coins) error {
	if recipientModule == disttypes.DistributorMainAccount {
		key := model.KModule + "-" + senderModule
		if f.decide("sweep-module") {
			f.sweepF[key] = append(f.sweepF[key], true)
			return errInjected
		}
		err := f.inner.SendCoinsFromModuleToModule(ctx, senderModule, recipientModule, amt)
		f.sweepF[key] = append(f.sweepF[key], err != nil)
		return err
	}
	if f.decide("payout-module") {
		f.payoutF[model.KModule+"-"+recipientModule] = true
		return errInjected
	}
	return f.inner.SendCoinsFromModuleToModule(ctx, senderModule, recipientModule, amt)
}
func (f *faultBank) BurnCoins(ctx sdk.Context, moduleName string, amt sdk.Coins) error {
	if f.decide("burn") {
		f.payoutF[model.BurnKey] = true
		return errInjected
	}
	return f.inner.BurnCoins(ctx, moduleName, amt)
}

func (e *distEnv) faultyKeeper(fb *faultBank) distkeeper.Keeper {
	app := e.n.App
	k := distkeeper.NewKeeper(app.AppCodec(), app.GetKey(disttypes.StoreKey), app.GetMemKey(disttypes.MemStoreKey),
		app.GetSubspace(disttypes.ModuleName), fb, app.AccountKeeper, govAuthority())
	return *k
}

type c14Schedule struct {
	label string
	fail  func(idx int, kind string, block int) bool
}

func c14MakeSchedule(j int, r *rand.Rand, faultBlocks int) c14Schedule {
	inFault := func(block int) bool { return block <= faultBlocks }
	switch {
	case j < 30:
		return c14Schedule{fmt.Sprintf("single@%d", j), func(idx int, kind string, block int) bool { return idx == j }}
	case j < 38:
		a := r.Intn(30)
		b := a + 1 + r.Intn(3)
		return c14Schedule{fmt.Sprintf("pair@%d,%d", a, b), func(idx int, kind string, block int) bool { return idx == a || idx == b }}
	case j < 44:
		p := []float64{0.1, 0.5, 0.9}[(j-38)%3]
		seed := r.Int63()
		return c14Schedule{fmt.Sprintf("random p=%.1f", p), func(idx int, kind string, block int) bool {
			if !inFault(block) {
				return false
			}
			rr := rand.New(rand.NewSource(fw.CaseSeed(seed, "fault", idx)))
			return rr.Float64() < p
		}}
	default:
		kinds := []string{"sweep-module", "sweep-base", "payout-module", "payout-base", "burn"}
		kind := kinds[r.Intn(len(kinds))]
		if j == 47 {
			kind = "burn"
		}
		k := 1 + r.Intn(faultBlocks)
		return c14Schedule{fmt.Sprintf("always %s for %d blocks", kind, k), func(idx int, kd string, block int) bool { return kd == kind && block <= k }}
	}
}

func runC14(c *fw.Case) {
	cfgIdx := c.Index / c14Schedules
	schedIdx := c.Index % c14Schedules
	cr := rand.New(rand.NewSource(fw.CaseSeed(c.Seed, "C14-config", cfgIdx)))
	a := newDistKeys()
	// every fifth configuration works in whole numbers only (5% shares, inflows that are
	// multiples of 20^5): blocks without inflow then really have nothing to distribute,
	// and what failed earlier must still be made up in them
	whole := cfgIdx%5 == 4
	do := distOpts(a, true)
	do.NiceShares = whole
	sds := gen.SubDistributors(cr, do)
	if sds == nil {
		c.Describe("no-valid-config", cfgIdx)
		return
	}
	a.wholeAmounts = whole
	const faultBlocks, suffixBlocks = 6, 5
	seedInflow := cr.Int63()
	sched := c14MakeSchedule(schedIdx, c.R, faultBlocks)
	if err := a.start(cloneSubs(sds), nil); err != nil {
		c.Inconclusive("start: %v", err)
		return
	}
	b := newDistKeys()
	b.wholeAmounts = whole
	if err := b.start(cloneSubs(sds), nil); err != nil {
		c.Inconclusive("start twin: %v", err)
		return
	}
	c.Describe(a.configString(), sched.label, seedInflow)
	fb := &faultBank{inner: a.n.App.BankKeeper, env: a, fail: sched.fail, kindHits: map[string]int{}}
	fk := a.faultyKeeper(fb)
	rA := rand.New(rand.NewSource(seedInflow))
	rB := rand.New(rand.NewSource(seedInflow))
	cyclic := distCyclic(a.subs)
	maxBlocks := faultBlocks + 40
	drained := false
	// inflows stop one block after the faults, together with them, or up to two blocks
	// earlier: what failed must also be made up in blocks that bring nothing new
	inflowUntil := faultBlocks + 1 - c.R.Intn(4)
	if whole {
		inflowUntil = 2 + c.R.Intn(3) // the faults outlast the inflows
	}
	for blk := 1; blk <= maxBlocks; blk++ {
		if blk <= inflowUntil {
			a.inflow(rA)
			b.inflow(rB)
		}
		fb.sweepF, fb.payoutF = map[string][]bool{}, map[string]bool{}
		if blk > faultBlocks {
			fb.fail = nil
		}
		// the real run first (it records which calls failed), then the model with the same failures
		obsA := a.stepWithFaults(fk, fb)
		if obsA.panicked != nil {
			c.ViolateD("C14/beginblock-panic", map[string]interface{}{"config": a.describe(), "schedule": sched.label, "stack": obsA.panicked.Stack}, "distributor BeginBlocker panicked under faults in block %d: %s", a.block, short(obsA.panicked.Value, 300))
			return
		}
		if c.Property == "C18" {
			// C18 looks at the events first: a later check may end the case
			a.checkEvents(c, obsA, "C18")
			if c.NViol() > 0 {
				return
			}
		}
		a.checkBooks(c, obsA, "C14")
		if c.NViol() > 0 {
			return
		}
		a.checkModel(c, obsA, "C14")
		if c.NViol() > 0 {
			return
		}
		// what the events of the block report must be what the model - which knows the
		// failures of this block - assigned (kept by C18's fault-injection cases)
		a.checkEvents(c, obsA, "C18")
		if c.NViol() > 0 {
			return
		}
		obsB := b.step(b.keeper, nil, nil)
		if obsB.panicked != nil {
			c.Inconclusive("fault-free twin panicked: %s", obsB.panicked.Value)
			return
		}
		// supply must move by burns only, and balances must add up
		sn := a.n.Snap()
		for _, d := range sn.Denoms() {
			if sn.SumBalances(d).Cmp(sn.Sup(d)) != 0 {
				c.ViolateD("C14/supply-vs-balances", a.describe(), "block %d: supply of %s is %s but balances sum to %s", a.block, d, sn.Sup(d), sn.SumBalances(d))
				return
			}
		}
		c.Count("blocks", 1)
		if blk >= faultBlocks+suffixBlocks && (cyclic || (a.quiescent() && b.quiescent())) {
			drained = !cyclic
			break
		}
	}
	c.Count("faults_injected", int64(fb.hits))
	for k, v := range fb.kindHits {
		c.Count("faults_"+k, int64(v))
	}
	c.Count("bank_calls", int64(fb.idx))
	c.Nontrivial(fb.hits > 0)
	// final comparison with the fault-free twin: only meaningful once everything in flight
	// has arrived (configurations whose destinations feed back into earlier sources
	// circulate coins forever and converge only asymptotically)
	if cyclic {
		c.Count("twin_comparison_skipped_cyclic_config", 1)
	} else if !drained {
		c.Count("twin_comparison_skipped_not_drained", 1)
	} else {
		c.Count("twin_comparisons", 1)
		// "made up later": whatever the fault-free twin has paid out by now (its books owe
		// the destination less than one base unit), the run with faults must have paid too
		owedB := map[string]sdk.DecCoins{}
		for _, st := range b.n.App.CfedistributorKeeper.GetAllStates(b.n.Ctx()) {
			owedB[stateKey(st)] = st.Remains
		}
		for _, st := range a.n.App.CfedistributorKeeper.GetAllStates(a.n.Ctx()) {
			k := stateKey(st)
			for _, dc := range st.Remains {
				if dc.Amount.GTE(sdk.OneDec()) && owedB[k].AmountOf(dc.Denom).LT(sdk.OneDec()) {
					c.ViolateD("C14/not-paid-out", map[string]interface{}{"config": a.describe(), "schedule": sched.label},
						"%d fault-free blocks after the faults the books still owe %s %s%s (the fault-free twin owes %s): the failed transfer was not made up (schedule %s)", a.block-faultBlocks, k, dc.Amount, dc.Denom, owedB[k].AmountOf(dc.Denom), sched.label)
					return
				}
			}
		}
		ha, hb := a.holdings(), b.holdings()
		keys := map[string]bool{}
		for k := range ha {
			keys[k] = true
		}
		for k := range hb {
			keys[k] = true
		}
		var ks []string
		for k := range keys {
			ks = append(ks, k)
		}
		sort.Strings(ks)
		one := big.NewRat(1, 1)
		for _, k := range ks {
			ca, cb := ha[k], hb[k]
			if ca == nil {
				ca = model.Coins{}
			}
			if cb == nil {
				cb = model.Coins{}
			}
			if !coinsClose(ca, cb, one) {
				c.ViolateD("C14/not-made-up", map[string]interface{}{"config": a.describe(), "schedule": sched.label}, "after the fault-free suffix %s holds %s, the fault-free twin %s (schedule %s)", k, coinsStr(ca), coinsStr(cb), sched.label)
				return
			}
		}
	}
	c.Sample(map[string]interface{}{"config": strings.Split(a.configString(), " ;; "), "schedule": sched.label, "faults_hit": fb.hits, "bank_calls": fb.idx})
}

// stepWithFaults runs the real block with the faulty keeper and then feeds the
// recorded failures to the model.
func (e *distEnv) stepWithFaults(k distkeeper.Keeper, fb *faultBank) distBlockObs {
	return e.stepLazy(k, func() (func(string) bool, func(string, int) bool) {
		pf := map[string]bool{}
		for key := range fb.payoutF {
			pf[key] = true
		}
		pf[model.KBase+"-"+e.blocked] = true
		sf := map[string][]bool{}
		for key, v := range fb.sweepF {
			sf[key] = append([]bool(nil), v...)
		}
		// the bank reports failures by address; the model asks by the identifier of the
		// configuration, which may spell a base address in upper case
		norm := func(key string) string {
			if strings.HasPrefix(key, model.KBase+"-") {
				return model.KBase + "-" + strings.ToLower(strings.TrimPrefix(key, model.KBase+"-"))
			}
			return key
		}
		return func(key string) bool { return pf[norm(key)] }, func(key string, attempt int) bool {
			if v := sf[norm(key)]; attempt < len(v) {
				return v[attempt]
			}
			return false
		}
	})
}

// holdings returns, per address, spendable balance + recorded remains, plus
// BURN (burned total + burn remains) and internal accounts' remains.
func (e *distEnv) holdings() map[string]model.Coins {
	out := map[string]model.Coins{}
	get := func(k string) model.Coins {
		if out[k] == nil {
			out[k] = model.Coins{}
		}
		return out[k]
	}
	ctx := e.n.Ctx()
	addrs := map[string]bool{}
	for _, s := range e.n.App.CfedistributorKeeper.GetAllStates(ctx) {
		k := stateKey(s)
		g := k
		if strings.HasPrefix(k, model.KModule+"-") {
			g = gen.ModuleAddr(strings.TrimPrefix(k, model.KModule+"-"))
			addrs[g] = true
		} else if strings.HasPrefix(k, model.KBase+"-") {
			g = strings.ToLower(strings.TrimPrefix(k, model.KBase+"-"))
			addrs[g] = true
		}
		get(g).Add(decCoinsToModel(s.Remains))
	}
	for a := range e.receipts {
		if strings.HasPrefix(a, "c4e1") {
			addrs[a] = true
		}
	}
	for _, sd := range e.subs {
		for _, s := range sd.Sources {
			if s.Type == model.KModule || s.Type == model.KBase {
				addrs[e.addrOf(s)] = true
			}
		}
	}
	for a := range addrs {
		acc, err := sdk.AccAddressFromBech32(a)
		if err != nil {
			continue
		}
		for _, cn := range e.n.App.BankKeeper.SpendableCoins(ctx, acc) {
			get(a).Add(model.Coins{cn.Denom: new(big.Rat).SetInt(cn.Amount.BigInt())})
		}
	}
	if r := e.receipts[model.BurnKey]; r != nil {
		get(model.BurnKey).Add(r)
	}
	return out
}

// distCyclic reports whether some destination feeds (directly or through other
// sub-distributors) back into one of its own sources.
func distCyclic(subs []model.DSub) bool {
	adj := map[string]map[string]bool{}
	for _, sd := range subs {
		var dests []string
		for _, sh := range sd.Shares {
			dests = append(dests, sh.Dest.Key())
		}
		dests = append(dests, sd.Primary.Key())
		for _, s := range sd.Sources {
			if adj[s.Key()] == nil {
				adj[s.Key()] = map[string]bool{}
			}
			for _, d := range dests {
				adj[s.Key()][d] = true
			}
		}
	}
	color := map[string]int{}
	var visit func(n string) bool
	visit = func(n string) bool {
		color[n] = 1
		for m := range adj[n] {
			if color[m] == 1 {
				return true
			}
			if color[m] == 0 && visit(m) {
				return true
			}
		}
		color[n] = 2
		return false
	}
	for n := range adj {
		if color[n] == 0 && visit(n) {
			return true
		}
	}
	return false
}

// quiescent: nothing is in flight any more (no spendable coins on source accounts,
// no remains recorded for sources or internal accounts, nothing unowed on main).
func (e *distEnv) quiescent() bool {
	ctx := e.n.Ctx()
	srcKeys := map[string]bool{}
	for _, sd := range e.subs {
		for _, s := range sd.Sources {
			if s.Type == model.KMain {
				continue
			}
			srcKeys[s.Key()] = true
			if s.Type == model.KInternal {
				continue
			}
			acc, err := sdk.AccAddressFromBech32(e.addrOf(s))
			if err == nil && !e.n.App.BankKeeper.SpendableCoins(ctx, acc).IsZero() {
				return false
			}
		}
	}
	sum := model.Coins{}
	for _, st := range e.n.App.CfedistributorKeeper.GetAllStates(ctx) {
		k := stateKey(st)
		if (srcKeys[k] || strings.HasPrefix(k, model.KInternal+"-")) && !st.Remains.IsZero() {
			return false
		}
		sum.Add(decCoinsToModel(st.Remains))
	}
	return coinsClose(sum, coinsOf(ctx, e.n, e.mainAddr), new(big.Rat))
}
