package mon

import (
	"encoding/json"
	"fmt"
	"math/big"
	"math/rand"
	"reflect"
	"sort"
	"strings"
	"time"

	"verifharness/chain"
	"verifharness/fw"
	"verifharness/gen"

	disttypes "github.com/chain4energy/c4e-chain/x/cfedistributor/types"
	minttypes "github.com/chain4energy/c4e-chain/x/cfeminter/types"
	vesttypes "github.com/chain4energy/c4e-chain/x/cfevesting/types"
	sdk "github.com/cosmos/cosmos-sdk/types"
	"github.com/cosmos/cosmos-sdk/types/address"
	authtypes "github.com/cosmos/cosmos-sdk/x/auth/types"
	vestingtypes "github.com/cosmos/cosmos-sdk/x/auth/vesting/types"
	banktypes "github.com/cosmos/cosmos-sdk/x/bank/types"
	govtypes "github.com/cosmos/cosmos-sdk/x/gov/types"
	stakingtypes "github.com/cosmos/cosmos-sdk/x/staking/types"
	"github.com/gogo/protobuf/proto"
	abci "github.com/tendermint/tendermint/abci/types"
)

const vDenom = "uc4e"

type vtInfo struct {
	name    string
	free    *big.Rat
	lockup  time.Duration
	vesting time.Duration
}

// vestEnv is an ABCI-driven chain for the vesting monitors.
type vestEnv struct {
	n *chain.Node
	// the governance module account acting as a pool owner (its messages are executed the way
	// an accepted proposal executes them); only used when govOwner is set
	govKey chain.Key
	// a key-less owner with a 32 byte address (the shape of group policy and interchain
	// accounts); its messages take the same route as those of the governance account
	longKey            chain.Key
	govOwner           bool
	niceFees           bool // fees are multiples of 20 (see genOp0)
	signBytesChecked   map[string]bool
	signBytesGapsFound []string
	owners             []chain.Key
	strangers          []chain.Key
	keys               map[string]chain.Key
	types              []vtInfo
	traced             map[string]bool // shadow: address has a trace
	derived            map[string]bool // shadow: address is genesis-derived
	depth              map[string]int  // lineage depth (for coverage)
	cvaKeys            []chain.Key     // keys of continuous vesting accounts known to the harness
	nextKey            int
	bounds             []time.Time // interesting instants (lock ends, vesting starts/ends)
	moduleAddr         string
	feeAddr            string
	// special targets for C09
	baseNoKey   chain.Key
	baseWithKey chain.Key
	delayed     chain.Key
	baseEmpty   chain.Key // an account that was used before and holds nothing any more
	// per-scenario coverage flags
	cov map[string]int64
	// profile steers the operation mix ("" = balanced, "split" = split/move heavy)
	profile string
	// C07 later-time oracle bookkeeping
	trackFamilies bool
	families      map[string]*c07Family
	familyOf      map[string]string
	everDelegated map[string]bool
}

func (e *vestEnv) key(label string) chain.Key {
	k := chain.NewKey(label)
	e.keys[k.Bech()] = k
	return k
}

func (e *vestEnv) fresh() chain.Key {
	e.nextKey++
	return e.key(fmt.Sprintf("fresh-%d", e.nextKey))
}

// unitsOf expresses a duration in the largest unit of a genesis file that divides it (the
// harness' own conversion: the genesis it builds must not depend on the code under test).
func unitsOf(d time.Duration) (int64, string) {
	switch {
	case d%(24*time.Hour) == 0:
		return int64(d / (24 * time.Hour)), "day"
	case d%time.Hour == 0:
		return int64(d / time.Hour), "hour"
	case d%time.Minute == 0:
		return int64(d / time.Minute), "minute"
	}
	return int64(d / time.Second), "second"
}

var manyDenoms = []string{"aaa", "bbb", "ccc", "ddd", "eee", "fff", "ggg", "hhh", "iii"}

func bigCoins(denom string, exp int) sdk.Coin {
	v, _ := new(big.Int).SetString("1"+strings.Repeat("0", exp), 10)
	return sdk.NewCoin(denom, sdk.NewIntFromBigInt(v))
}

// vestOpts customises the genesis of a vesting environment.
type vestOpts struct {
	Minter      *minttypes.GenesisState
	Distributor *disttypes.GenesisState
	Record      bool
	Extra       []chain.GenAccount // further genesis accounts
}

func newVestEnv(r *rand.Rand) (*vestEnv, error) { return newVestEnvOpts(r, vestOpts{}) }

func newVestEnvOpts(r *rand.Rand, opt vestOpts) (*vestEnv, error) {
	e := &vestEnv{everDelegated: map[string]bool{}, keys: map[string]chain.Key{}, traced: map[string]bool{}, derived: map[string]bool{}, depth: map[string]int{}, cov: map[string]int64{}}
	e.moduleAddr = chain.ModuleAddr(vesttypes.ModuleName)
	e.feeAddr = chain.ModuleAddr(authtypes.FeeCollectorName)
	frees := []string{"0", "1", "0.05", "0.000000000000000001", fmt.Sprintf("0.%018d", r.Int63n(1_000_000_000_000_000_000)), "0.5"}
	durs := []time.Duration{0, time.Second, 3 * time.Minute, time.Hour, 24 * time.Hour, 10 * 24 * time.Hour, time.Duration(1+r.Intn(500)) * time.Minute}
	var gts []vesttypes.GenesisVestingType
	for i, f := range frees {
		lock := durs[r.Intn(len(durs))]
		vest := durs[r.Intn(len(durs))]
		if i == 0 {
			lock, vest = 0, 0
		}
		if i == 5 {
			// very long periods: each valid on its own, their sum beyond what a Duration can hold
			lock, vest = 60000*24*time.Hour, time.Duration(50000+r.Intn(10000))*24*time.Hour
		}
		lv, lu := unitsOf(lock)
		vv, vu := unitsOf(vest)
		name := fmt.Sprintf("vt%d", i)
		gts = append(gts, vesttypes.GenesisVestingType{Name: name, LockupPeriod: lv, LockupPeriodUnit: lu, VestingPeriod: vv, VestingPeriodUnit: vu, Free: sdk.MustNewDecFromStr(f)})
		fr, _ := new(big.Rat).SetString(f)
		e.types = append(e.types, vtInfo{name, fr, lock, vest})
	}
	var accs []chain.GenAccount
	rich := sdk.NewCoins(bigCoins(vDenom, 30), bigCoins("foo", 20))
	for i := 0; i < 4; i++ {
		k := e.key(fmt.Sprintf("owner%d", i))
		e.owners = append(e.owners, k)
		accs = append(accs, chain.GenAccount{Account: authtypes.NewBaseAccount(k.Addr, nil, 0, 0), Coins: rich})
	}
	for i := 0; i < 2; i++ {
		k := e.key(fmt.Sprintf("stranger%d", i))
		e.strangers = append(e.strangers, k)
		accs = append(accs, chain.GenAccount{Account: authtypes.NewBaseAccount(k.Addr, nil, 0, 0), Coins: sdk.NewCoins(bigCoins(vDenom, 12))})
	}
	e.baseNoKey = e.key("base-nokey")
	accs = append(accs, chain.GenAccount{Account: authtypes.NewBaseAccount(e.baseNoKey.Addr, nil, 0, 0), Coins: sdk.NewCoins(bigCoins(vDenom, 9))})
	e.baseWithKey = e.key("base-withkey")
	accs = append(accs, chain.GenAccount{Account: authtypes.NewBaseAccount(e.baseWithKey.Addr, e.baseWithKey.Priv.PubKey(), 0, 5), Coins: sdk.NewCoins(bigCoins(vDenom, 9))})
	e.baseEmpty = e.key("base-empty")
	accs = append(accs, chain.GenAccount{Account: authtypes.NewBaseAccount(e.baseEmpty.Addr, e.baseEmpty.Priv.PubKey(), 0, 3), Coins: sdk.NewCoins()})
	e.delayed = e.key("delayed")
	dc := sdk.NewCoins(sdk.NewCoin(vDenom, sdk.NewInt(5_000_000)))
	accs = append(accs, chain.GenAccount{Account: vestingtypes.NewDelayedVestingAccount(authtypes.NewBaseAccount(e.delayed.Addr, nil, 0, 0), dc, gen.Epoch.Add(30*24*time.Hour).Unix()), Coins: dc.Add(sdk.NewCoin(vDenom, sdk.NewInt(1000)))})
	// genesis continuous vesting accounts: two traced as genesis, one untraced
	vg := &vesttypes.GenesisState{Params: vesttypes.Params{Denom: vDenom}, VestingTypes: gts, VestingAccountTraces: []vesttypes.VestingAccountTrace{}}
	for i := 0; i < 4; i++ {
		k := e.key(fmt.Sprintf("genesis-cva%d", i))
		ov := sdk.NewCoins(sdk.NewCoin(vDenom, sdk.NewIntFromBigInt(new(big.Int).Add(gen.BigAmount(r, 22), big.NewInt(1000)))))
		if i == 2 && r.Intn(2) == 0 {
			// locked amounts around the limits of the machine integers (2^63, 2^64)
			band := new(big.Int).Lsh(big.NewInt(1), uint(63+r.Intn(2)))
			band.Add(band, new(big.Int).Rand(r, new(big.Int).Lsh(big.NewInt(1), 62)))
			ov = sdk.NewCoins(sdk.NewCoin(vDenom, sdk.NewIntFromBigInt(band)))
		}
		if i == 1 {
			ov = ov.Add(sdk.NewCoin("foo", sdk.NewInt(int64(1000+r.Intn(1_000_000)))))
			// a denomination with upper-case characters (IBC vouchers look like this)
			ov = ov.Add(sdk.NewCoin(distDenoms[2], sdk.NewInt(int64(1000+r.Intn(5_000_000)))))
			if r.Intn(2) == 0 {
				// ... and a dozen denominations in all
				for _, d := range manyDenoms {
					ov = ov.Add(sdk.NewCoin(d, sdk.NewInt(int64(1+r.Intn(1_000_000)))))
				}
			}
		}
		start := gen.Epoch.Add(time.Duration(r.Intn(3)-1) * time.Hour)
		end := start.Add(time.Duration(1+r.Intn(72)) * time.Hour)
		if i == 3 {
			// a cliff account (start = end, everything unlocks at once), the shape a pool send
			// without restart leaves behind and an exported genesis therefore contains
			start = end
		}
		bva := vestingtypes.NewBaseVestingAccount(authtypes.NewBaseAccount(k.Addr, nil, 0, 0), ov, end.Unix())
		accs = append(accs, chain.GenAccount{Account: vestingtypes.NewContinuousVestingAccountRaw(bva, start.Unix()), Coins: ov.Add(sdk.NewCoin(vDenom, sdk.NewInt(1_000_000)))})
		e.cvaKeys = append(e.cvaKeys, k)
		e.bounds = append(e.bounds, start, end)
		if i < 2 {
			vg.VestingAccountTraces = append(vg.VestingAccountTraces, vesttypes.VestingAccountTrace{Id: uint64(i), Address: k.Bech(), Genesis: true})
			e.traced[k.Bech()] = true
			e.derived[k.Bech()] = true
		}
	}
	vg.VestingAccountTraceCount = uint64(len(vg.VestingAccountTraces))
	// genesis pools: owner0 gets genesis pools, owner1 a non-genesis pool
	mkPool := func(name string, genesisPool bool) *vesttypes.VestingPool {
		il := new(big.Int).Add(gen.BigAmount(r, 20), big.NewInt(10))
		sent := new(big.Int).Rand(r, new(big.Int).Add(new(big.Int).Div(il, big.NewInt(3)), big.NewInt(1)))
		wd := big.NewInt(0)
		if r.Intn(2) == 0 {
			// part of the pool was withdrawn before (pools of earlier versions could be drawn
			// on while locked; a genesis file carries whatever history the pool has)
			wd = new(big.Int).Rand(r, new(big.Int).Add(new(big.Int).Div(il, big.NewInt(3)), big.NewInt(1)))
		}
		lockEnd := gen.Epoch.Add(time.Duration(1+r.Intn(48)) * time.Hour)
		e.bounds = append(e.bounds, lockEnd)
		return &vesttypes.VestingPool{Name: name, VestingType: e.types[r.Intn(len(e.types))].name, LockStart: gen.Epoch.Add(-time.Hour), LockEnd: lockEnd,
			InitiallyLocked: sdk.NewIntFromBigInt(il), Withdrawn: sdk.NewIntFromBigInt(wd), Sent: sdk.NewIntFromBigInt(sent), GenesisPool: genesisPool}
	}
	vg.AccountVestingPools = append(vg.AccountVestingPools, &vesttypes.AccountVestingPools{Owner: e.owners[0].Bech(), VestingPools: []*vesttypes.VestingPool{mkPool("gp0", true), mkPool("gp1", true)}})
	vg.AccountVestingPools = append(vg.AccountVestingPools, &vesttypes.AccountVestingPools{Owner: e.owners[1].Bech(), VestingPools: []*vesttypes.VestingPool{mkPool("np0", false)}})
	accs = append(accs, opt.Extra...)
	e.govKey = chain.Key{Addr: authtypes.NewModuleAddress(govtypes.ModuleName)}
	e.longKey = chain.Key{Addr: sdk.AccAddress(address.Module("group", []byte{byte(r.Intn(256)), 1}))}
	n, err := chain.NewNode(chain.GenesisSpec{Time: gen.Epoch, Accounts: accs, Vesting: vg, Minter: opt.Minter, Distributor: opt.Distributor})
	if err != nil {
		return nil, err
	}
	n.Record = opt.Record
	e.n = n
	return e, nil
}

// ---- decoded views of the real state (observation only) ----

type poolView struct {
	Owner, Name, Type  string
	LockStart, LockEnd time.Time
	IL, W, S           *big.Int
	Genesis            bool
}

func (p poolView) locked() *big.Int {
	return new(big.Int).Sub(new(big.Int).Sub(p.IL, p.S), p.W)
}

func (e *vestEnv) pools() map[string][]poolView {
	out := map[string][]poolView{}
	for _, avp := range e.n.App.CfevestingKeeper.GetAllAccountVestingPools(e.n.Ctx()) {
		for _, p := range avp.VestingPools {
			out[avp.Owner] = append(out[avp.Owner], poolView{Owner: avp.Owner, Name: p.Name, Type: p.VestingType, LockStart: p.LockStart, LockEnd: p.LockEnd,
				IL: p.InitiallyLocked.BigInt(), W: p.Withdrawn.BigInt(), S: p.Sent.BigInt(), Genesis: p.GenesisPool})
		}
	}
	return out
}

func findPool(ps []poolView, name string) *poolView {
	var res *poolView
	for i := range ps {
		if ps[i].Name == name {
			res = &ps[i] // the code uses the last pool of that name
		}
	}
	return res
}

// vOp is one generated operation.
type vOp struct {
	// unbranched: the routed handler runs on the block's own context (a caller that does not
	// branch the state for it); whatever it wrote before refusing stays
	unbranched bool
	kind       string
	signer     chain.Key
	msg        sdk.Msg
	fee        sdk.Coins
	// parameters kept for the oracle
	owner, to, pool string
	amount          *big.Int
	coins           sdk.Coins
	restart         bool
	start, end      int64
	denoms          []string
	custom          bool
	respelled       bool   // addresses of the message are in upper-case bech32
	gas             uint64 // explicit gas limit (0 = ample)
	desc            string
}

func (e *vestEnv) randAmount(r *rand.Rand, ref *big.Int) *big.Int {
	switch r.Intn(14) {
	case 0:
		return big.NewInt(0)
	case 1:
		return big.NewInt(1)
	case 2:
		return new(big.Int).Set(ref)
	case 3:
		return new(big.Int).Add(ref, big.NewInt(1))
	case 4:
		if ref.Sign() > 0 {
			return new(big.Int).Sub(ref, big.NewInt(1))
		}
		return big.NewInt(0)
	case 5:
		return new(big.Int).Mul(new(big.Int).Add(ref, big.NewInt(7)), big.NewInt(1000))
	}
	if ref.Sign() <= 0 {
		return big.NewInt(int64(r.Intn(5)))
	}
	return new(big.Int).Rand(r, new(big.Int).Add(ref, big.NewInt(1)))
}

func (e *vestEnv) randRecipient(r *rand.Rand) string {
	switch r.Intn(26) {
	case 0:
		return e.baseNoKey.Bech()
	case 1:
		return e.baseWithKey.Bech()
	case 2:
		if len(e.cvaKeys) > 0 {
			return e.cvaKeys[r.Intn(len(e.cvaKeys))].Bech()
		}
	case 3:
		return e.delayed.Bech()
	case 4:
		return e.moduleAddr
	case 5:
		return chain.ModuleAddr("governance_booster_collector") // module address that may not be materialised
	case 6:
		return e.owners[r.Intn(len(e.owners))].Bech()
	case 7:
		return e.baseEmpty.Bech()
	case 8:
		// an existing module account that may receive coins. Only in the scenarios that do
		// not export: x/gov's InitGenesis (SDK 0.46) panics when the governance account holds
		// anything but deposits, so any payment to it makes an exported genesis unimportable -
		// an SDK behaviour that is the same in every application with this standard wiring
		if e.govOwner {
			return e.govKey.Bech()
		}
	}
	return e.fresh().Bech()
}

func (e *vestEnv) genOp(r *rand.Rand, now time.Time) vOp {
	op := e.genOp0(r, now)
	if op.custom && (r.Intn(8) == 0 || (op.kind == "send" && r.Intn(4) == 0)) {
		// a gas limit that may run out anywhere inside the handler: the transaction then fails
		// as a whole (baseapp rolls it back), it never half-succeeds
		op.gas = uint64(40000 + r.Intn(90000))
		op.desc += fmt.Sprintf(" [gas limit %d]", op.gas)
	}
	if op.custom && r.Intn(8) == 0 {
		// the same addresses in their other valid spelling (bech32 is case-insensitive as a
		// whole): the signer and the account are the same, only the string differs
		op.respelled = respellAddresses(op.msg, r)
		op.desc += " [uppercase addresses]"
	}
	return op
}

// respellAddresses upper-cases valid bech32 account addresses held in string fields: all of
// them, or (half of the time) only some. It reports whether the first one (the owner / sender
// of every vesting message) was respelled.
func respellAddresses(msg sdk.Msg, r *rand.Rand) (firstRespelled bool) {
	v := reflect.ValueOf(msg)
	if v.Kind() != reflect.Ptr || v.Elem().Kind() != reflect.Struct {
		return false
	}
	v = v.Elem()
	some := r.Intn(2) == 0
	first := true
	for i := 0; i < v.NumField(); i++ {
		f := v.Field(i)
		if f.Kind() == reflect.String && f.CanSet() {
			if _, err := sdk.AccAddressFromBech32(f.String()); err == nil {
				isFirst := first
				first = false
				if some && r.Intn(2) == 0 {
					continue
				}
				if _, err := sdk.AccAddressFromBech32(strings.ToUpper(f.String())); err == nil {
					f.SetString(strings.ToUpper(f.String()))
					if isFirst {
						firstRespelled = true
					}
				}
			}
		}
	}
	return firstRespelled
}

func (e *vestEnv) genOp0(r *rand.Rand, now time.Time) vOp {
	pools := e.pools()
	owner := e.owners[r.Intn(len(e.owners))]
	if e.govOwner && r.Intn(12) == 0 {
		owner = e.govKey
		if r.Intn(2) == 0 {
			owner = e.longKey
		}
	}
	var fee sdk.Coins
	if r.Intn(3) == 0 {
		fee = sdk.NewCoins(sdk.NewCoin(vDenom, sdk.NewInt(int64(1+r.Intn(5000)))))
		if e.niceFees {
			// multiples of 20: with 5% shares the distributor's books hit whole numbers exactly
			fee = sdk.NewCoins(sdk.NewCoin(vDenom, sdk.NewInt(int64(20*(1+r.Intn(3))))))
		}
		if r.Intn(3) == 0 {
			// fees may be paid in any denomination the payer holds
			fee = sdk.NewCoins(sdk.NewCoin("foo", sdk.NewInt(int64(1+r.Intn(500000)))))
		}
	}
	x := r.Intn(100)
	if e.profile == "split" && len(e.cvaKeys) > 0 && r.Intn(2) == 0 {
		x = 62 + r.Intn(28) // split / move / delegate
	}
	// a vesting account with spendable coins may lock them in a pool of its own like anybody
	// else (once it has one it sends and withdraws from it), and it may pay for the vesting
	// account of somebody else
	if r.Intn(10) == 0 && len(e.cvaKeys) > 0 {
		cand := e.cvaKeys[r.Intn(len(e.cvaKeys))]
		if x < 14 || (x >= 54 && x < 62) || len(pools[cand.Bech()]) > 0 {
			owner = cand
			if fee != nil && !e.n.App.BankKeeper.SpendableCoins(e.n.Ctx(), owner.Addr).IsAllGTE(fee) {
				fee = nil
			}
		}
	}
	switch {
	case x < 14: // create pool
		name := fmt.Sprintf("p%d", r.Intn(6))
		if r.Intn(4) == 0 {
			name = strings.ToUpper(name) // pool names are case-sensitive: "P1" is not "p1"
			// preferably the variant of a pool the owner already has
			if ps := pools[owner.Bech()]; len(ps) > 0 && r.Intn(2) == 0 {
				if n0 := ps[r.Intn(len(ps))].Name; strings.ToUpper(n0) != n0 {
					name = strings.ToUpper(n0)
				} else {
					name = strings.ToLower(n0)
				}
			}
		}
		amt := e.randAmount(r, new(big.Int).Exp(big.NewInt(10), big.NewInt(int64(r.Intn(24))), nil))
		if r.Intn(12) == 0 {
			amt = new(big.Int).Exp(big.NewInt(10), big.NewInt(31), nil) // more than the balance
		}
		// incl. lock ends centuries away (beyond what UnixNano can represent)
		durs := []time.Duration{time.Nanosecond, time.Second, time.Minute, time.Hour, 5 * time.Hour, 36 * time.Hour, 0, -time.Second, 250 * 365 * 24 * time.Hour, 1<<63 - 1}
		d := durs[r.Intn(len(durs))]
		vt := e.types[r.Intn(len(e.types))].name
		if r.Intn(15) == 0 {
			vt = "unknown-type"
		}
		signer := owner
		if r.Intn(20) == 0 {
			signer = e.strangers[0]
		}
		msg := &vesttypes.MsgCreateVestingPool{Owner: signer.Bech(), Name: name, Amount: sdk.NewIntFromBigInt(amt), Duration: d, VestingType: vt}
		return vOp{kind: "create-pool", signer: signer, msg: msg, fee: fee, owner: signer.Bech(), pool: name, amount: amt, custom: true, desc: fmt.Sprintf("create-pool %s %s dur=%s type=%s", name, amt, d, vt)}
	case x < 40: // send to vesting account
		if (len(pools[owner.Bech()]) == 0 || r.Intn(3) > 0) && !e.isCVAKey(owner) {
			// prefer an owner that has pools
			for _, o := range e.owners {
				if len(pools[o.Bech()]) > 0 && r.Intn(2) == 0 {
					owner = o
					break
				}
			}
		}
		ps := pools[owner.Bech()]
		pname := fmt.Sprintf("p%d", r.Intn(6))
		ref := big.NewInt(100)
		if len(ps) > 0 {
			p := ps[r.Intn(len(ps))]
			pname = p.Name
			ref = p.locked()
			if !now.Before(p.LockEnd) {
				ref = big.NewInt(0)
			}
		}
		amt := e.randAmount(r, ref)
		to := e.randRecipient(r)
		restart := r.Intn(2) == 0
		msg := &vesttypes.MsgSendToVestingAccount{Owner: owner.Bech(), ToAddress: to, VestingPoolName: pname, Amount: sdk.NewIntFromBigInt(amt), RestartVesting: restart}
		return vOp{kind: "send", signer: owner, msg: msg, fee: fee, owner: owner.Bech(), to: to, pool: pname, amount: amt, restart: restart, custom: true, desc: fmt.Sprintf("send %s->%s pool=%s amt=%s restart=%v", short(owner.Bech(), 10), short(to, 10), pname, amt, restart)}
	case x < 54: // withdraw
		signer := owner
		if r.Intn(10) == 0 {
			signer = e.strangers[r.Intn(len(e.strangers))]
		}
		msg := &vesttypes.MsgWithdrawAllAvailable{Owner: signer.Bech()}
		return vOp{kind: "withdraw", signer: signer, msg: msg, fee: fee, owner: signer.Bech(), custom: true, desc: "withdraw " + short(signer.Bech(), 10)}
	case x < 62: // create vesting account
		to := e.randRecipient(r)
		coins := sdk.NewCoins(sdk.NewCoin(vDenom, sdk.NewIntFromBigInt(new(big.Int).Add(gen.BigAmount(r, 20), big.NewInt(1)))))
		if r.Intn(3) == 0 {
			coins = coins.Add(sdk.NewCoin("foo", sdk.NewInt(int64(1+r.Intn(100000)))))
		}
		st := now.Add(time.Duration(r.Intn(7200)-3600) * time.Second).Unix()
		en := st + int64(r.Intn(200000))
		if r.Intn(10) == 0 {
			en = st - 1
		}
		if r.Intn(12) == 0 {
			// a schedule that starts unimaginably late (beyond 2^53 seconds, where a float64
			// no longer holds every integer): valid, everything stays locked
			st = int64(1)<<53 + 1 + 2*r.Int63n(1<<20)
			en = st + 1 + r.Int63n(1_000_000_000)
		}
		msgCoins := coins
		if len(coins) > 1 && r.Intn(2) == 0 {
			// the message may list its coins in any order (nothing in front of the handler sorts them)
			msgCoins = sdk.Coins{coins[1], coins[0]}
		}
		msg := &vesttypes.MsgCreateVestingAccount{FromAddress: owner.Bech(), ToAddress: to, Amount: msgCoins, StartTime: st, EndTime: en}
		return vOp{kind: "create-account", signer: owner, msg: msg, fee: fee, owner: owner.Bech(), to: to, coins: coins, start: st, end: en, custom: true, desc: fmt.Sprintf("create-account ->%s %s [%d,%d]", short(to, 10), coins, st, en)}
	case x < 84 && len(e.cvaKeys) > 0: // split / move
		from := e.cvaKeys[r.Intn(len(e.cvaKeys))]
		for tries := 0; tries < 6; tries++ {
			cand := e.cvaKeys[r.Intn(len(e.cvaKeys))]
			if e.n.App.BankKeeper.LockedCoins(e.n.Ctx(), cand.Addr).IsZero() {
				continue
			}
			from = cand
			if e.traced[cand.Bech()] || r.Intn(3) == 0 {
				break
			}
		}
		if r.Intn(12) == 0 {
			// a sender that holds locked coins but is not a continuous vesting account
			from = e.delayed
		}
		signer := from
		if r.Intn(15) == 0 {
			signer = e.strangers[0]
		}
		// vesting accounts usually have nothing spendable to pay a fee with
		if fee != nil && !e.n.App.BankKeeper.SpendableCoins(e.n.Ctx(), signer.Addr).IsAllGTE(fee) {
			fee = nil
		}
		to := e.randRecipient(r)
		locked := e.n.App.BankKeeper.LockedCoins(e.n.Ctx(), from.Addr)
		switch r.Intn(4) {
		case 0:
			msg := &vesttypes.MsgMoveAvailableVesting{FromAddress: signer.Bech(), ToAddress: to}
			return vOp{kind: "move", signer: signer, msg: msg, fee: fee, owner: signer.Bech(), to: to, custom: true, desc: fmt.Sprintf("move %s->%s", short(signer.Bech(), 10), short(to, 10))}
		case 1:
			ds := []string{vDenom}
			if r.Intn(2) == 0 {
				ds = []string{"foo"}
			}
			if r.Intn(3) == 0 {
				ds = []string{vDenom, "foo"}
			}
			switch r.Intn(6) {
			case 0:
				ds = []string{distDenoms[2]}
			case 1:
				ds = append(ds, distDenoms[2])
			}
			if r.Intn(10) == 0 {
				ds = append(ds, "nonexistent")
			}
			if r.Intn(5) == 0 {
				// every denomination the sender has locked, however many
				ds = nil
				for _, lc := range locked {
					ds = append(ds, lc.Denom)
				}
				if len(ds) == 0 {
					ds = []string{vDenom}
				}
			}
			msg := &vesttypes.MsgMoveAvailableVestingByDenoms{FromAddress: signer.Bech(), ToAddress: to, Denoms: ds}
			return vOp{kind: "move-denoms", signer: signer, msg: msg, fee: fee, owner: signer.Bech(), to: to, denoms: ds, custom: true, desc: fmt.Sprintf("move-denoms %s->%s %v", short(signer.Bech(), 10), short(to, 10), ds)}
		default:
			coins := sdk.NewCoins()
			for _, lc := range locked {
				if r.Intn(3) != 0 {
					a := e.randAmount(r, lc.Amount.BigInt())
					if a.Sign() > 0 {
						coins = coins.Add(sdk.NewCoin(lc.Denom, sdk.NewIntFromBigInt(a)))
					}
				}
			}
			if coins.IsZero() {
				coins = sdk.NewCoins(sdk.NewCoin(vDenom, sdk.NewInt(int64(1+r.Intn(3)))))
			}
			msg := &vesttypes.MsgSplitVesting{FromAddress: signer.Bech(), ToAddress: to, Amount: coins}
			return vOp{kind: "split", signer: signer, msg: msg, fee: fee, owner: signer.Bech(), to: to, coins: coins, custom: true, desc: fmt.Sprintf("split %s->%s %s", short(signer.Bech(), 10), short(to, 10), coins)}
		}
	case x < 90 && len(e.cvaKeys) > 0: // delegate / undelegate from a vesting account
		from := e.cvaKeys[r.Intn(len(e.cvaKeys))]
		bal := e.n.App.BankKeeper.GetBalance(e.n.Ctx(), from.Addr, vDenom).Amount.BigInt()
		amt := new(big.Int).Rand(r, new(big.Int).Add(bal, big.NewInt(1)))
		if r.Intn(4) == 0 {
			amt = new(big.Int).Set(bal) // everything: the account's balance drops to zero
		}
		if amt.Sign() == 0 {
			amt = big.NewInt(1)
		}
		if r.Intn(3) == 0 {
			msg := &stakingtypes.MsgUndelegate{DelegatorAddress: from.Bech(), ValidatorAddress: e.n.ValOper.String(), Amount: sdk.NewCoin(vDenom, sdk.NewIntFromBigInt(amt))}
			return vOp{kind: "undelegate", signer: from, msg: msg, fee: nil, desc: "undelegate " + amt.String()}
		}
		msg := &stakingtypes.MsgDelegate{DelegatorAddress: from.Bech(), ValidatorAddress: e.n.ValOper.String(), Amount: sdk.NewCoin(vDenom, sdk.NewIntFromBigInt(amt))}
		return vOp{kind: "delegate", signer: from, msg: msg, fee: nil, desc: "delegate " + amt.String()}
	default: // plain bank send
		to := e.randRecipient(r)
		toAddr, _ := sdk.AccAddressFromBech32(to)
		msg := &banktypes.MsgSend{FromAddress: owner.Bech(), ToAddress: toAddr.String(), Amount: sdk.NewCoins(sdk.NewCoin(vDenom, sdk.NewInt(int64(1+r.Intn(100000)))))}
		return vOp{kind: "bank-send", signer: owner, msg: msg, fee: fee, desc: "bank-send"}
	}
}

// txOutcome is everything observed around one delivered transaction.
type txOutcome struct {
	op        vOp
	res       abci.ResponseDeliverTx
	pre, post *chain.Snapshot
	prePools  map[string][]poolView
	postPools map[string][]poolView
	now       time.Time
	fee       *big.Int
	// locked / spendable coins of the message's main actor (owner / from address)
	preLocked, postLocked       map[string]*big.Int
	preSpendable, postSpendable map[string]*big.Int
}

// signBytesGaps perturbs every field of a message in turn and reports the fields whose change
// leaves the bytes that a wallet signs (amino JSON sign mode) unchanged: for such a field the
// signature does not bind what the signer saw.
func signBytesGaps(msg sdk.Msg) (gaps []string) {
	lm, ok := msg.(interface{ GetSignBytes() []byte })
	pm, ok2 := msg.(proto.Message)
	if !ok || !ok2 {
		return nil
	}
	defer func() { recover() }() // a message that cannot be marshalled signs nothing
	base := string(lm.GetSignBytes())
	t := reflect.TypeOf(msg).Elem()
	for i := 0; i < t.NumField(); i++ {
		if t.Field(i).PkgPath != "" || strings.HasPrefix(t.Field(i).Name, "XXX_") {
			continue
		}
		cp := proto.Clone(pm)
		f := reflect.ValueOf(cp).Elem().Field(i)
		switch {
		case f.Kind() == reflect.String:
			f.SetString(f.String() + "x")
		case f.Kind() == reflect.Bool:
			f.SetBool(!f.Bool())
		case f.Kind() == reflect.Int64:
			f.SetInt(f.Int() + 1)
		case f.Type() == reflect.TypeOf(sdk.Int{}):
			if v := f.Interface().(sdk.Int); !v.IsNil() {
				f.Set(reflect.ValueOf(v.AddRaw(1)))
			} else {
				continue
			}
		case f.Type() == reflect.TypeOf(sdk.Coins{}):
			f.Set(reflect.ValueOf(append(append(sdk.Coins{}, f.Interface().(sdk.Coins)...), sdk.NewCoin("zzz", sdk.OneInt()))))
		case f.Kind() == reflect.Slice && f.Type().Elem().Kind() == reflect.String:
			f.Set(reflect.Append(f, reflect.ValueOf("zzz")))
		default:
			continue
		}
		if string(cp.(interface{ GetSignBytes() []byte }).GetSignBytes()) == base {
			gaps = append(gaps, t.Field(i).Name)
		}
	}
	return gaps
}

func (e *vestEnv) exec(op vOp, now time.Time) (*txOutcome, error) {
	o := &txOutcome{op: op, now: now}
	if op.custom && !e.signBytesChecked[sdk.MsgTypeURL(op.msg)] {
		if e.signBytesChecked == nil {
			e.signBytesChecked = map[string]bool{}
		}
		e.signBytesChecked[sdk.MsgTypeURL(op.msg)] = true
		e.signBytesGapsFound = append(e.signBytesGapsFound, func() []string {
			var out []string
			for _, g := range signBytesGaps(op.msg) {
				out = append(out, sdk.MsgTypeURL(op.msg)+"."+g)
			}
			return out
		}()...)
	}
	o.pre = e.n.Snap()
	o.prePools = e.pools()
	actor, aerr := sdk.AccAddressFromBech32(op.owner)
	if aerr == nil {
		o.preLocked = coinsMap(e.n.App.BankKeeper.LockedCoins(e.n.Ctx(), actor))
		o.preSpendable = coinsMap(e.n.App.BankKeeper.SpendableCoins(e.n.Ctx(), actor))
	}
	var res abci.ResponseDeliverTx
	if op.unbranched {
		o.op.fee, op.fee = nil, nil
		var herr error
		var hres *sdk.Result
		if p := safeCall("handler", func() {
			if herr = op.msg.ValidateBasic(); herr == nil {
				hres, herr = e.n.App.MsgServiceRouter().Handler(op.msg)(e.n.Ctx(), op.msg)
			}
		}); p != nil {
			return nil, p
		}
		if hres != nil {
			res.Events = hres.Events
			res.Data, _ = proto.Marshal(&sdk.TxMsgData{MsgResponses: hres.MsgResponses})
		}
		if herr != nil {
			res.Code, res.Log = 1, herr.Error()
		}
	} else if op.signer.Priv == nil {
		// the governance account signs nothing: its message runs as an accepted proposal does
		o.op.fee, op.fee = nil, nil
		gres, evs, gerr := e.n.GovExec(op.msg)
		res = abci.ResponseDeliverTx{Events: evs}
		if gres != nil {
			res.Data, _ = proto.Marshal(&sdk.TxMsgData{MsgResponses: gres.MsgResponses})
		}
		if gerr != nil {
			if p := asPanic(gerr); p != nil {
				return nil, gerr
			}
			res.Code, res.Log = 1, gerr.Error()
		}
	} else {
		var err error
		if op.gas > 0 {
			res, err = e.n.DeliverGas(op.signer, op.fee, op.gas, op.msg)
		} else {
			res, err = e.n.DeliverFee(op.signer, op.fee, op.msg)
		}
		if err != nil {
			return nil, err
		}
	}
	o.res = res
	o.post = e.n.Snap()
	o.postPools = e.pools()
	if aerr == nil {
		o.postLocked = coinsMap(e.n.App.BankKeeper.LockedCoins(e.n.Ctx(), actor))
		o.postSpendable = coinsMap(e.n.App.BankKeeper.SpendableCoins(e.n.Ctx(), actor))
	}
	o.fee = new(big.Int)
	if !op.fee.IsZero() {
		o.fee = op.fee.AmountOf(vDenom).BigInt()
	}
	return o, nil
}

func accJSON(s string) map[string]interface{} {
	var m map[string]interface{}
	json.Unmarshal([]byte(s), &m)
	return m
}

// stripAccount removes the fields a transaction may legitimately change.
func stripAccount(m map[string]interface{}, signer bool, ownVesting bool) string {
	var walk func(v interface{}) interface{}
	walk = func(v interface{}) interface{} {
		mm, ok := v.(map[string]interface{})
		if !ok {
			return v
		}
		out := map[string]interface{}{}
		for k, x := range mm {
			if signer && (k == "sequence" || k == "pub_key") {
				continue
			}
			if ownVesting && k == "original_vesting" {
				continue
			}
			out[k] = walk(x)
		}
		return out
	}
	b, _ := json.Marshal(walk(m))
	return string(b)
}

// cva decodes a continuous vesting account view from snapshot JSON.
type cvaView struct {
	Type       string
	OV         map[string]*big.Int
	DV         map[string]*big.Int
	DF         map[string]*big.Int
	Start, End int64
	AccNum     string
	Seq        string
	HasPub     bool
}

func coinsFromJSON(v interface{}) map[string]*big.Int {
	out := map[string]*big.Int{}
	arr, _ := v.([]interface{})
	for _, x := range arr {
		m, _ := x.(map[string]interface{})
		d, _ := m["denom"].(string)
		a, _ := m["amount"].(string)
		if n, ok := new(big.Int).SetString(a, 10); ok {
			out[d] = n
		}
	}
	return out
}

func parseCVA(s string) *cvaView {
	m := accJSON(s)
	if m == nil {
		return nil
	}
	v := &cvaView{}
	v.Type, _ = m["@type"].(string)
	bva, _ := m["base_vesting_account"].(map[string]interface{})
	if bva == nil {
		return v
	}
	v.OV = coinsFromJSON(bva["original_vesting"])
	v.DV = coinsFromJSON(bva["delegated_vesting"])
	v.DF = coinsFromJSON(bva["delegated_free"])
	if s, ok := bva["end_time"].(string); ok {
		fmt.Sscan(s, &v.End)
	}
	if s, ok := m["start_time"].(string); ok {
		fmt.Sscan(s, &v.Start)
	}
	if ba, ok := bva["base_account"].(map[string]interface{}); ok {
		v.AccNum, _ = ba["account_number"].(string)
		v.Seq, _ = ba["sequence"].(string)
		v.HasPub = ba["pub_key"] != nil
	}
	return v
}

const cvaType = "/cosmos.vesting.v1beta1.ContinuousVestingAccount"

func sortedKeys(m map[string]bool) []string {
	var out []string
	for k := range m {
		out = append(out, k)
	}
	sort.Strings(out)
	return out
}

// decodeWithdrawn extracts the `withdrawn` coin of a MsgWithdrawAllAvailableResponse.
func decodeWithdrawn(data []byte) (sdk.Coin, bool) {
	var tmd sdk.TxMsgData
	if err := proto.Unmarshal(data, &tmd); err != nil {
		return sdk.Coin{}, false
	}
	for _, any := range tmd.MsgResponses {
		var resp vesttypes.MsgWithdrawAllAvailableResponse
		if strings.HasSuffix(any.TypeUrl, "MsgWithdrawAllAvailableResponse") {
			if err := proto.Unmarshal(any.Value, &resp); err == nil {
				return resp.Withdrawn, true
			}
		}
	}
	return sdk.Coin{}, false
}

var _ = fw.JSON

func (e *vestEnv) isCVAKey(k chain.Key) bool {
	for _, c := range e.cvaKeys {
		if c.Bech() == k.Bech() {
			return true
		}
	}
	return false
}

// stageSubSecondType gives one vesting type periods with a sub-second part. A genesis file
// expresses periods in whole units; the store holds durations, and the types of earlier
// versions were carried over as durations. Staged through the keeper before the first
// block, only in scenarios that neither export nor replay on a second application.
func (e *vestEnv) stageSubSecondType(r *rand.Rand) {
	n := e.n
	ctx := n.Ctx()
	vts := n.App.CfevestingKeeper.GetAllVestingTypes(ctx)
	for i := range vts.VestingTypes {
		if vts.VestingTypes[i].Name == "vt4" {
			vts.VestingTypes[i].LockupPeriod += time.Duration(r.Intn(1_000_000_000))
			vts.VestingTypes[i].VestingPeriod += time.Duration(r.Intn(1_000_000_000))
			e.types[4].lockup, e.types[4].vesting = vts.VestingTypes[i].LockupPeriod, vts.VestingTypes[i].VestingPeriod
		}
	}
	n.App.CfevestingKeeper.SetVestingTypes(ctx, vts)
}
