package mon

import (
	sdk "github.com/cosmos/cosmos-sdk/types"
	govtypes "github.com/cosmos/cosmos-sdk/x/gov/types"
	"math/big"
	"math/rand"
	"sort"
	"time"

	"verifharness/fw"
	"verifharness/gen"
)

// nextBlockTime picks the next block time: hug a boundary or jump randomly.
func (e *vestEnv) nextBlockTime(r *rand.Rand, now time.Time) time.Time {
	var future []time.Time
	for _, b := range e.bounds {
		// boundaries centuries away (very long vesting types) are not worth a block:
		// jumping there only multiplies the emission steps every BeginBlock has to iterate
		if b.After(now.Add(-2*time.Second)) && b.Before(now.Add(2*365*24*time.Hour)) {
			future = append(future, b)
		}
	}
	sort.Slice(future, func(i, j int) bool { return future[i].Before(future[j]) })
	if len(future) > 0 && r.Intn(10) < 6 {
		b := future[0]
		if len(future) > 1 && r.Intn(3) == 0 {
			b = future[r.Intn(len(future))]
		}
		offs := []time.Duration{-time.Second, -1, 0, 0, 0, 1, time.Second, time.Millisecond}
		t := b.Add(offs[r.Intn(len(offs))])
		if t.After(now) {
			return t
		}
	}
	steps := []time.Duration{1, time.Second, 5 * time.Second, time.Minute, 17 * time.Minute, time.Hour, 7 * time.Hour}
	return now.Add(steps[r.Intn(len(steps))] + time.Duration(r.Int63n(int64(time.Second))))
}

// runVestScenario executes one generated vesting history on the real app and
// runs every oracle; only violations of props are kept.
func runVestScenario(c *fw.Case, props ...string) *vestEnv {
	return runVestScenarioP(c, "", props...)
}

func runVestScenarioHooked(c *fw.Case, profile string, props []string) *vestEnv {
	return runVestScenarioOpts(c, profile, true, props...)
}

func runVestScenarioP(c *fw.Case, profile string, props ...string) *vestEnv {
	return runVestScenarioOpts(c, profile, false, props...)
}

func runVestScenarioOpts(c *fw.Case, profile string, families bool, props ...string) *vestEnv {
	e, err := newVestEnv(c.R)
	if e != nil {
		e.profile = profile
		e.trackFamilies = families
		e.govOwner = true
		if c.R.Intn(3) == 0 {
			e.stageSubSecondType(c.R)
		}
	}
	if err != nil {
		if p := asPanic(err); p != nil {
			c.ViolateD(props[0]+"/initchain-panic", p.Stack, "InitChain panicked: %s", short(p.Value, 300))
			return nil
		}
		c.Inconclusive("env: %v", err)
		return nil
	}
	nOps := 40 + c.R.Intn(50)
	if c.Tier == "thorough" {
		nOps = 80 + c.R.Intn(120)
	}
	now := gen.Epoch.Add(time.Duration(1+c.R.Intn(3600)) * time.Second)
	if _, err := e.n.BeginBlock(now); err != nil {
		c.Inconclusive("beginblock: %v", err)
		return nil
	}
	// the governance account gets coins of its own (as it does through deposits and plain
	// transfers): from then on it can own pools like anybody else
	if e.govOwner {
		funds := sdk.NewCoins(sdk.NewCoin(vDenom, sdk.NewInt(1_000_000_000_000)), sdk.NewCoin("foo", sdk.NewInt(1_000_000_000)))
		if err := e.n.App.BankKeeper.SendCoinsFromAccountToModule(e.n.Ctx(), e.owners[0].Addr, govtypes.ModuleName, funds); err != nil {
			e.govOwner = false
		} else if err := e.n.App.BankKeeper.SendCoins(e.n.Ctx(), e.owners[0].Addr, e.longKey.Addr, funds); err != nil {
			e.govOwner = false
		}
	}
	var descs []string
	failed, succeeded := 0, 0
	failedAfterMaturity := false
	for i := 0; i < nOps; i++ {
		if c.R.Intn(10) < 3 {
			if _, _, err := e.n.EndBlock(); err != nil {
				e.blockPanic(c, err)
				break
			}
			now = e.nextBlockTime(c.R, now)
			if _, err := e.n.BeginBlock(now); err != nil {
				e.blockPanic(c, err)
				break
			}
			e.checkLineageAndSummaries(c, now, "after BeginBlock")
		}
		op := e.genOp(c.R, now)
		var queried *big.Int
		haveQuery := false
		if op.kind == "withdraw" {
			queried, haveQuery = e.poolQuery(c, op.owner, now)
		}
		o, err := e.exec(op, now)
		if err != nil {
			if p := asPanic(err); p != nil {
				c.ViolateD("C20/deliver-panic/"+op.kind, p.Stack, "%s: %s", op.desc, short(p.Value, 300))
				continue
			}
			// signing failed (e.g. unsignable message): not an execution
			continue
		}
		c.Count("txs", 1)
		if o.res.Code == 0 {
			succeeded++
		} else {
			failed++
			if op.kind == "send" {
				for _, p := range o.prePools[op.owner] {
					if !now.Before(p.LockEnd) && p.locked().Sign() > 0 {
						failedAfterMaturity = true // the rejected send had already run the implicit withdrawal
					}
				}
			}
		}
		if len(descs) < 12 {
			descs = append(descs, op.desc+" => "+map[bool]string{true: "ok", false: "rejected"}[o.res.Code == 0])
		}
		e.observe(c, o)
		if e.trackFamilies {
			e.c07AfterTx(c, o)
		}
		if op.kind == "withdraw" && o.res.Code == 0 && haveQuery {
			paid := new(big.Int)
			for i := range o.prePools[op.owner] {
				paid.Add(paid, new(big.Int).Sub(o.postPools[op.owner][i].W, o.prePools[op.owner][i].W))
			}
			if queried.Cmp(paid) != 0 {
				c.Violate("C06/query-vs-withdrawal", "VestingPools query reported %s withdrawable, the withdrawal in the same block paid %s", queried, paid)
			}
			e.cov["query_then_withdraw_pairs"]++
			// a repeated withdrawal in the same block pays nothing
			if c.R.Intn(2) == 0 {
				op2 := op
				op2.fee = nil
				o2, err := e.exec(op2, now)
				if err == nil && o2.res.Code == 0 {
					e.observe(c, o2)
					paid2 := new(big.Int)
					for i := range o2.prePools[op.owner] {
						paid2.Add(paid2, new(big.Int).Sub(o2.postPools[op.owner][i].W, o2.prePools[op.owner][i].W))
					}
					if paid2.Sign() != 0 {
						c.Violate("C06/second-withdrawal-paid", "a repeated withdrawal in the same block paid %s", paid2)
					}
					e.cov["repeated_withdrawals"]++
				}
			}
		}
		if c.R.Intn(4) == 0 {
			e.checkLineageAndSummaries(c, now, "after "+op.kind)
		}
		if c.NViol() > 40 {
			break
		}
	}
	if e.n.InBlock {
		e.checkLineageAndSummaries(c, now, "end of history")
		if _, _, err := e.n.EndBlock(); err != nil {
			e.blockPanic(c, err)
		}
	}
	c.Count("txs_ok", int64(succeeded))
	c.Count("txs_rejected", int64(failed))
	for k, v := range e.cov {
		if len(k) > 4 && k[:4] == "max_" {
			c.Max(k, v)
		} else {
			c.Count(k, v)
		}
	}
	if failedAfterMaturity {
		c.Count("rejected_sends_after_implicit_withdrawal", 1)
	}
	var prefixes []string
	for _, p := range props {
		prefixes = append(prefixes, p+"/")
	}
	c.KeepViolations(prefixes...)
	c.Describe(descs, nOps, succeeded, failed)
	c.Sample(map[string]interface{}{"first_ops": descs, "ops": nOps, "ok": succeeded, "rejected": failed})
	return e
}

func (e *vestEnv) blockPanic(c *fw.Case, err error) {
	if p := asPanic(err); p != nil {
		c.ViolateD("C10/block-panic", p.Stack, "%s panicked: %s", p.Where, short(p.Value, 300))
		return
	}
	c.Inconclusive("block: %v", err)
}
