package mon

import (
	"fmt"
	"strings"
	"time"

	"verifharness/chain"
	"verifharness/fw"
	"verifharness/gen"

	vesttypes "github.com/chain4energy/c4e-chain/x/cfevesting/types"
	sdk "github.com/cosmos/cosmos-sdk/types"
	authtypes "github.com/cosmos/cosmos-sdk/x/auth/types"
)

const vestRuleCommon = "case = one generated vesting history on the real app through signed DeliverTx: 40-90 (thorough 80-200) messages out of create-pool / send-to-vesting-account (restart and not) / withdraw / create-vesting-account / split / move / move-by-denoms / delegate / undelegate / bank send, " +
	"~40% deliberately invalid (too large after an implicit withdrawal, duplicate names, unknown types, existing / blocked / module recipients, strangers as signers), 4 owners, genesis and non-genesis pools, genesis vesting accounts, 5 vesting types (free 0, 1, 0.05, 1e-18, random), " +
	"block times hugging every lock end and vesting start/end (-1s,-1ns,=,+1ns,+1s). Full snapshots (supply, every balance, every auth account, raw custom stores) before/after every transaction. "

func init() {
	fw.Register(&fw.Monitor{
		ID: "C05", Level: "exploration",
		Rule: vestRuleCommon + "C05 oracle: module balance == sum(initially_locked-sent-withdrawn), pool bounds, and a rejected transaction changes nothing but the signer's sequence/pubkey and the fee. " +
			"Non-trivial: >=3 pools alive, >=1 withdrawal>0, >=1 rejected transaction; the count of rejected sends that had already run the implicit withdrawal is reported. Distinct by history hash." +
			" Every 16th case is the genesis probe (consistent / surplus / deficit / no pools / over-drawn pool x skip-genesis-invariants, upper-case owners, sends and withdrawals by them, an owner with 101-160 pools), every 16th the staged v1.2.0 upgrade (solvency and vesting denomination afterwards). After every message the exported cfevesting genesis must list every stored pool unchanged and no pool record may disappear.",
		Assumptions:   []string{"baseapp's per-transaction cache and rollback are the production ones (real DeliverTx)"},
		Cases:         func(t string) int { return tierN(t, 256, 3000) },
		MinNontrivial: func(t string) int { return tierN(t, 80, 1000) },
		Run: func(c *fw.Case) {
			if c.Index%16 == 15 {
				c05GenesisProbe(c)
				c.KeepViolations("C05/")
				return
			}
			if c.Index%16 == 7 {
				// the v1.2.0 upgrade rewrites pools of the hard-coded owner: the module account
				// must back the pools afterwards as it did before (staged legacy state, see C16)
				runC16(c)
				c.KeepViolations("C05/")
				return
			}
			e := runVestScenario(c, "C05")
			if e == nil {
				return
			}
			pools := 0
			for _, ps := range e.pools() {
				pools += len(ps)
			}
			c.Nontrivial(pools >= 3 && e.cov["withdrawals_positive"] > 0 && c.Counter("txs_rejected") > 0)
		},
	})
	fw.Register(&fw.Monitor{
		ID: "C06", Level: "exploration",
		Rule: vestRuleCommon + "C06 oracle: per pool, withdrawn grows by exactly the still-locked remainder iff block time >= lock end (explicit and implicit withdrawals), payout and response equal the sum, a repeated withdrawal pays 0, the VestingPools query in the same block agrees with store and payout, sent grows only through a successful send that creates a new continuous vesting account. " +
			"Non-trivial: >=1 withdrawal exactly at a lock-end instant or with matured and locked pools side by side. Distinct by history hash." +
			" Also: a created pool's lock end is creation time + requested duration; a key-less owner with a 32 byte address executes its messages the way group policies do; the genesis probe compares query and withdrawal for an owner with more than 100 pools; the exported genesis lists every stored pool.",
		Cases:         func(t string) int { return tierN(t, 256, 3000) },
		MinNontrivial: func(t string) int { return tierN(t, 40, 600) },
		Run: func(c *fw.Case) {
			if c.Index%16 == 15 {
				c05GenesisProbe(c)
				c.KeepViolations("C06/")
				return
			}
			e := runVestScenario(c, "C06")
			if e == nil {
				return
			}
			c.Nontrivial(e.cov["withdraw_exactly_at_lock_end"] > 0 || e.cov["withdraw_mixed_matured_and_locked"] > 0)
		},
	})
	fw.Register(&fw.Monitor{
		ID: "C08", Level: "exploration",
		Rule: vestRuleCommon + "C08 oracle (big.Rat): recipient did not exist, is a continuous vesting account with balance == amount, original vesting == floor(amount*(1-free)), start/end per restart flag and lock end, sent += amount, over-remainder sends never succeed, valid sends to fresh addresses never fail; direct creation transfers and vests exactly the given coins. " +
			"Non-trivial: >=1 successful send with free not in {0,1} and a non-integer free part, or an exact-remainder send. Distinct by history hash." +
			" Also: pool names differing only in letter case, vesting types with sub-second periods (staged), the genesis probe's upper-case owner sends (sent counter, over-send).",
		Cases:         func(t string) int { return tierN(t, 256, 3000) },
		MinNontrivial: func(t string) int { return tierN(t, 40, 600) },
		Run: func(c *fw.Case) {
			if c.Index%16 == 15 {
				c05GenesisProbe(c)
				c.KeepViolations("C08/")
				return
			}
			e := runVestScenario(c, "C08")
			if e == nil {
				return
			}
			c.Nontrivial(e.cov["sends_with_fractional_free_part"] > 0 || e.cov["exact_remainder_sends"] > 0)
		},
	})
	fw.Register(&fw.Monitor{
		ID: "C17", Level: "exploration",
		Rule: vestRuleCommon + "C17 oracle: the harness keeps its own lineage closure (pool's genesis flag; split/move children inherit) and compares it with the trace store after blocks and messages; VestingsSummary and GenesisVestingsSummary are recomputed from bank + auth state (SDK account methods for vesting/locked coins, own summation). " +
			"Non-trivial: lineage depth >=2 reached and delegated vesting >0 at some summary, or depth >=3. Distinct by history hash." +
			" Also: the exported cfevesting genesis must list every stored trace unchanged; pools created by messages never carry the genesis flag; genesis vesting accounts create pools and pay for direct account creations; every 8th case checks the lineage and pool flags the staged v1.2.0 upgrade records.",
		Cases:         func(t string) int { return tierN(t, 256, 3000) },
		MinNontrivial: func(t string) int { return tierN(t, 32, 400) },
		Run: func(c *fw.Case) {
			if c.Index%8 == 7 {
				// lineage recorded by the v1.2.0 upgrade (staged legacy state, see C16)
				runC16(c)
				c.KeepViolations("C17/")
				return
			}
			e := runVestScenarioP(c, "split", "C17")
			if e == nil {
				return
			}
			c.Nontrivial((e.cov["max_lineage_depth"] >= 2 && e.cov["summaries_with_delegated_vesting"] > 0) || e.cov["max_lineage_depth"] >= 3)
		},
	})
}

// c05GenesisProbe: "at all times" starts at genesis. A genesis whose vesting module account is
// not exactly backed by the listed pools (surplus, deficit, funded account without any pool)
// must be refused by InitChain - also on a node that skips the crisis module's genesis
// invariant assertion, which would otherwise mask a missing check of the module itself.
func c05GenesisProbe(c *fw.Case) {
	r := c.R
	mkPool := func(name string, amt int64) *vesttypes.VestingPool {
		return &vesttypes.VestingPool{Name: name, VestingType: "vt", LockStart: gen.Epoch, LockEnd: gen.Epoch.Add(time.Duration(1+r.Intn(1000)) * time.Hour),
			InitiallyLocked: sdk.NewInt(amt), Withdrawn: sdk.ZeroInt(), Sent: sdk.ZeroInt()}
	}
	owner := chain.NewKey(fmt.Sprintf("c05-genesis-owner-%d", c.Index))
	accs := []chain.GenAccount{{Account: authtypes.NewBaseAccount(owner.Addr, nil, 0, 0), Coins: sdk.NewCoins(sdk.NewCoin(vDenom, sdk.NewInt(1_000_000)))}}
	vts := []vesttypes.GenesisVestingType{{Name: "vt", LockupPeriod: 1, LockupPeriodUnit: "day", VestingPeriod: 1, VestingPeriodUnit: "day", Free: sdk.ZeroDec()}}
	type variant struct {
		label   string
		pools   int
		surplus int64
		valid   bool
	}
	d := int64(1 + r.Intn(1000))
	variants := []variant{
		{"consistent", 1 + r.Intn(3), 0, true},
		{"no pools, funded module account", 0, d, false},
		{"surplus", 1 + r.Intn(3), d, false},
		{"deficit", 1 + r.Intn(3), -d, false},
		{"no pools, empty module account", 0, 0, true},
		// the module account matches the sum, but one pool has paid out more than was ever
		// locked in it (withdrawn + sent > initially locked) at the expense of another
		{"over-drawn pool", -1, 0, false},
	}
	for _, v := range variants {
		for _, skip := range []bool{false, true} {
			vg := &vesttypes.GenesisState{Params: vesttypes.Params{Denom: vDenom}, VestingTypes: vts}
			if v.pools < 0 {
				if skip {
					continue // only the genesis invariants know about a single pool's bounds
				}
				over := mkPool("over", 100)
				over.Withdrawn = sdk.NewInt(100 + d)
				vg.AccountVestingPools = []*vesttypes.AccountVestingPools{{Owner: owner.Bech(), VestingPools: []*vesttypes.VestingPool{over, mkPool("other", 5000+d)}}}
			}
			if v.pools > 0 {
				avp := &vesttypes.AccountVestingPools{Owner: owner.Bech()}
				for i := 0; i < v.pools; i++ {
					avp.VestingPools = append(avp.VestingPools, mkPool(fmt.Sprintf("g%d", i), 2000+int64(r.Intn(100000))))
				}
				vg.AccountVestingPools = []*vesttypes.AccountVestingPools{avp}
			}
			if skip {
				chain.AppOptions = map[string]interface{}{"x-crisis-skip-assert-invariants": true}
			}
			_, err := chain.NewNode(chain.GenesisSpec{Time: gen.Epoch, Accounts: accs, Vesting: vg, VestingModuleSurplus: v.surplus})
			chain.AppOptions = nil
			c.Count("genesis_probes", 1)
			switch {
			case v.valid && err != nil:
				c.Inconclusive("genesis probe: a consistent genesis (%s) was refused: %v", v.label, err)
				return
			case !v.valid && err == nil:
				c.ViolateD("C05/unbacked-genesis-accepted", map[string]string{"variant": v.label, "skip_genesis_invariants": fmt.Sprint(skip)},
					"InitChain accepted a genesis whose vesting module account is not backed by its pools (%s; skip-genesis-invariants=%v)", v.label, skip)
			case !v.valid:
				c.Count("unbacked_genesis_refused", 1)
			}
		}
	}
	// --- owners spelled in upper-case bech32 in the genesis file (a valid spelling) ---
	upper := strings.ToUpper(owner.Bech())
	lockEnd := gen.Epoch.Add(time.Duration(1+r.Intn(100)) * time.Hour)
	amtA, amtB := int64(1000+r.Intn(100000)), int64(1000+r.Intn(100000))
	pool := func(name string, amt int64) *vesttypes.VestingPool {
		return &vesttypes.VestingPool{Name: name, VestingType: "vt", LockStart: gen.Epoch, LockEnd: lockEnd, InitiallyLocked: sdk.NewInt(amt), Withdrawn: sdk.ZeroInt(), Sent: sdk.ZeroInt()}
	}
	for _, twice := range []bool{false, true} {
		vg := &vesttypes.GenesisState{Params: vesttypes.Params{Denom: vDenom}, VestingTypes: vts,
			AccountVestingPools: []*vesttypes.AccountVestingPools{{Owner: upper, VestingPools: []*vesttypes.VestingPool{pool("up", amtA)}}}}
		total := amtA
		if twice {
			// the same account listed a second time under its other spelling
			vg.AccountVestingPools = append(vg.AccountVestingPools, &vesttypes.AccountVestingPools{Owner: owner.Bech(), VestingPools: []*vesttypes.VestingPool{pool("low", amtB)}})
			total += amtB
		}
		if vg.Validate() != nil {
			c.Count("two_spellings_genesis_not_valid", 1)
			continue
		}
		n, err := chain.NewNode(chain.GenesisSpec{Time: gen.Epoch, Accounts: accs, Vesting: vg})
		if err != nil {
			if p := asPanic(err); p != nil {
				c.ViolateD("C05/initchain-panic", p.Stack, "InitChain panicked for a valid genesis with an upper-case owner: %s", short(p.Value, 300))
			}
			continue
		}
		c.Count("genesis_probes", 1)
		backed := func(when string) {
			sum := sdk.ZeroInt()
			for _, avp := range n.App.CfevestingKeeper.GetAllAccountVestingPools(n.Ctx()) {
				for _, p := range avp.VestingPools {
					sum = sum.Add(p.GetCurrentlyLocked())
				}
			}
			bal := n.App.BankKeeper.GetBalance(n.Ctx(), authtypes.NewModuleAddress(vesttypes.ModuleName), vDenom).Amount
			if !bal.Equal(sum) {
				c.ViolateD("C05/module-balance-vs-pools", map[string]string{"when": when, "owner_listed_twice": fmt.Sprint(twice)}, "%s (owner spelled in upper case in the genesis, listed twice: %v): vesting module account holds %s but pools lock %s", when, twice, bal, sum)
			}
		}
		backed("after InitChain")
		// before the lock end the owner - writing its address the way the genesis does - sends
		// part of the pool to a new vesting account: the pool's sent counter grows by exactly
		// that, and no more than what is left can be sent afterwards
		sentA := int64(0)
		if _, err := n.BeginBlock(lockEnd.Add(-30 * time.Minute)); err == nil {
			s := int64(1 + r.Intn(int(amtA/2)))
			to := chain.NewKey(fmt.Sprintf("c05-genesis-recipient-%d-%v", c.Index, twice))
			res, derr := n.Deliver(owner, &vesttypes.MsgSendToVestingAccount{Owner: upper, ToAddress: to.Bech(), VestingPoolName: "up", Amount: sdk.NewInt(s), RestartVesting: r.Intn(2) == 0})
			if derr == nil {
				if res.Code != 0 {
					c.ViolateD("C08/valid-send-rejected", map[string]string{"log": short(res.Log, 300)}, "a send of %d from the %d locked in the pool of a genesis owner spelled in upper case was rejected", s, amtA)
				} else {
					sentA = s
					avp, _ := n.App.CfevestingKeeper.GetAccountVestingPools(n.Ctx(), upper)
					got := sdk.ZeroInt()
					for _, p := range avp.VestingPools {
						if p.Name == "up" {
							got = p.Sent
						}
					}
					if !got.Equal(sdk.NewInt(s)) {
						c.Violate("C08/sent-counter", "send of %d from the pool of a genesis owner spelled in upper case: the pool's sent counter is %s afterwards", s, got)
					}
					res2, derr2 := n.Deliver(owner, &vesttypes.MsgSendToVestingAccount{Owner: upper, ToAddress: chain.NewKey(fmt.Sprintf("c05-genesis-recipient2-%d-%v", c.Index, twice)).Bech(), VestingPoolName: "up", Amount: sdk.NewInt(amtA - s + 1), RestartVesting: false})
					if derr2 == nil && res2.Code == 0 {
						c.Violate("C08/oversend-succeeded", "after sending %d of %d, a send of %d from the pool of a genesis owner spelled in upper case succeeded", s, amtA, amtA-s+1)
						sentA = amtA + 1
					}
					c.Count("upper_case_genesis_owner_sends", 1)
				}
			}
			backed("after the send")
			n.EndBlock()
		}
		if sentA > amtA {
			continue
		}
		amtA := amtA - sentA
		// at the lock end the owner is paid exactly the matured remainder, and the pool query
		// agrees
		if _, err := n.BeginBlock(lockEnd); err != nil {
			continue
		}
		before := n.App.BankKeeper.GetBalance(n.Ctx(), owner.Addr, vDenom).Amount
		q, qerr := n.App.CfevestingKeeper.VestingPools(sdk.WrapSDKContext(n.Ctx()), &vesttypes.QueryVestingPoolsRequest{Owner: upper})
		res, derr := n.Deliver(owner, &vesttypes.MsgWithdrawAllAvailable{Owner: upper})
		if derr == nil {
			after := n.App.BankKeeper.GetBalance(n.Ctx(), owner.Addr, vDenom).Amount
			paid := after.Sub(before)
			if res.Code != 0 || !paid.Equal(sdk.NewInt(amtA)) {
				c.ViolateD("C06/genesis-owner-not-paid", map[string]string{"log": short(res.Log, 300), "owner_listed_twice": fmt.Sprint(twice)}, "withdraw-all at the lock end by a genesis owner spelled in upper case paid %s (code %d), the matured remainder is %d", paid, res.Code, amtA)
			}
			if qerr != nil || q == nil || len(q.VestingPools) != 1 || q.VestingPools[0].Withdrawable != fmt.Sprint(amtA) {
				c.ViolateD("C06/query-vs-withdrawal", map[string]string{"err": fmt.Sprint(qerr)}, "the pool query for a genesis owner spelled in upper case does not report the %d withdrawable coins that a withdrawal in the same block pays (err %v)", amtA, qerr)
			}
			c.Count("upper_case_genesis_owner_withdrawals", 1)
		}
		backed("after the withdrawal")
		n.EndBlock()
	}
	// --- an owner with more pools than any page of a listing holds ---
	if c.Index%32 == 15 {
		nPools := 101 + r.Intn(60)
		var many []*vesttypes.VestingPool
		total := int64(0)
		ends := []time.Time{}
		for i := 0; i < nPools; i++ {
			amt := int64(1 + r.Intn(100000))
			p := mkPool(fmt.Sprintf("pool-%03d", i), amt)
			many = append(many, p)
			total += amt
			ends = append(ends, p.LockEnd)
		}
		vg := &vesttypes.GenesisState{Params: vesttypes.Params{Denom: vDenom}, VestingTypes: vts,
			AccountVestingPools: []*vesttypes.AccountVestingPools{{Owner: owner.Bech(), VestingPools: many}}}
		if n, err := chain.NewNode(chain.GenesisSpec{Time: gen.Epoch, Accounts: accs, Vesting: vg}); err == nil {
			at := ends[r.Intn(len(ends))] // exactly at one of the lock ends
			if _, err := n.BeginBlock(at); err == nil {
				want := int64(0)
				for _, p := range many {
					if !at.Before(p.LockEnd) {
						want += p.InitiallyLocked.Int64()
					}
				}
				q, qerr := n.App.CfevestingKeeper.VestingPools(sdk.WrapSDKContext(n.Ctx()), &vesttypes.QueryVestingPoolsRequest{Owner: owner.Bech()})
				reported := sdk.ZeroInt()
				if qerr == nil && q != nil {
					for _, info := range q.VestingPools {
						if w, ok := sdk.NewIntFromString(info.Withdrawable); ok {
							reported = reported.Add(w)
						}
					}
				}
				before := n.App.BankKeeper.GetBalance(n.Ctx(), owner.Addr, vDenom).Amount
				res, derr := n.Deliver(owner, &vesttypes.MsgWithdrawAllAvailable{Owner: owner.Bech()})
				if derr == nil {
					paid := n.App.BankKeeper.GetBalance(n.Ctx(), owner.Addr, vDenom).Amount.Sub(before)
					if res.Code != 0 || !paid.Equal(sdk.NewInt(want)) {
						c.Violate("C06/withdraw-paid-wrong-amount", "owner with %d pools: withdraw-all paid %s (code %d), the matured remainders add up to %d", nPools, paid, res.Code, want)
					}
					if qerr != nil || !reported.Equal(paid) {
						c.Violate("C06/query-vs-withdrawal", "owner with %d pools: the pool query reported %s withdrawable in %d pools (err %v), the withdrawal in the same block paid %s", nPools, reported, len(q.GetVestingPools()), qerr, paid)
					}
					c.Count("owners_with_more_than_100_pools", 1)
				}
				n.EndBlock()
			}
		}
	}
	c.Describe("genesis-probe", c.Index, d)
	c.Nontrivial(true)
}
