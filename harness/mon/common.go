// Package mon holds one monitor per property.
package mon

import (
	"encoding/json"
	"fmt"
	"math/big"
	"time"

	"verifharness/chain"
	"verifharness/fw"
	"verifharness/gen"
	"verifharness/model"

	minttypes "github.com/chain4energy/c4e-chain/x/cfeminter/types"
	sdk "github.com/cosmos/cosmos-sdk/types"
	abci "github.com/tendermint/tendermint/abci/types"
)

func tierN(tier string, quick, thorough int) int {
	if tier == "thorough" {
		return thorough
	}
	return quick
}

// minterGenesis wraps params into a genesis with an explicit, zeroed state.
func minterGenesis(p minttypes.Params, genesisTime time.Time) *minttypes.GenesisState {
	first := uint32(1)
	for i, m := range p.Minters {
		if m != nil && (i == 0 || m.SequenceId < first) {
			first = m.SequenceId
		}
	}
	return &minttypes.GenesisState{
		Params: p,
		MinterState: minttypes.MinterState{SequenceId: first, AmountMinted: sdk.ZeroInt(), RemainderToMint: sdk.ZeroDec(),
			LastMintBlockTime: genesisTime, RemainderFromPreviousMinter: sdk.ZeroDec()},
	}
}

// typedEvents returns the flattened events whose type has the given suffix.
func typedEvents(events []abci.Event, suffix string) []chain.Ev {
	var out []chain.Ev
	for _, e := range chain.Flatten(events) {
		if len(e.Type) >= len(suffix) && e.Type[len(e.Type)-len(suffix):] == suffix {
			out = append(out, e)
		}
	}
	return out
}

func bigStr(s string) (*big.Int, bool) {
	return new(big.Int).SetString(chain.Unq(s), 10)
}

// handlePanic turns an error into a violation when it is a recovered panic.
func asPanic(err error) *chain.PanicError {
	if p, ok := err.(*chain.PanicError); ok {
		return p
	}
	return nil
}

func short(s string, n int) string {
	if len(s) > n {
		return s[:n] + "…"
	}
	return s
}

func fmtTime(t time.Time) string { return t.UTC().Format(time.RFC3339Nano) }

var _ = fmt.Sprintf
var _ = gen.Epoch
var _ fw.Violation

// parseDecCoinsJSON parses the JSON array a typed event uses for DecCoins.
func parseDecCoinsJSON(s string) (model.Coins, bool) {
	var arr []struct {
		Denom  string `json:"denom"`
		Amount string `json:"amount"`
	}
	if err := json.Unmarshal([]byte(s), &arr); err != nil {
		return nil, false
	}
	out := model.Coins{}
	for _, e := range arr {
		r, ok := new(big.Rat).SetString(e.Amount)
		if !ok {
			return nil, false
		}
		if out[e.Denom] == nil {
			out[e.Denom] = new(big.Rat)
		}
		out[e.Denom].Add(out[e.Denom], r)
	}
	return out, true
}

// parseAccountJSON parses {"id":..,"type":..}.
func parseAccountJSON(s string) (typ, id string) {
	var a struct {
		ID   string `json:"id"`
		Type string `json:"type"`
	}
	json.Unmarshal([]byte(s), &a)
	return a.Type, a.ID
}

// Chain time of a case: two thirds of the cases live in 2030 (the future of any machine
// that runs the checks), one third in 2021 (its past). Nothing in a replicated state
// machine may depend on the wall clock; code that reads it instead of the block time
// agrees with the block-time-based reference models in only one of the two eras.
var epochFuture = time.Date(2030, 1, 1, 0, 0, 0, 0, time.UTC)
var epochPast = time.Date(2021, 3, 4, 5, 6, 7, 0, time.UTC)

func init() {
	fw.BeforeCase = func(c *fw.Case) {
		gen.Epoch = epochFuture
		if c.Index%3 == 2 {
			gen.Epoch = epochPast
		}
	}
}
