package mon

import (
	"math/big"

	"verifharness/fw"
	"verifharness/model"

	disttypes "github.com/chain4energy/c4e-chain/x/cfedistributor/types"
	sdk "github.com/cosmos/cosmos-sdk/types"
)

// c01BurnBoundaryProbe: one sub-distributor fed by the main account with a burn share and a
// module-account primary destination; inflows of one to four base units. The burn share lands
// on whole coins all the time (exactly 1, exactly 2 ...), and in every block the total supply
// must have dropped by exactly what the configuration burns: a burn state that has reached a
// whole coin is burned in that very block.
func c01BurnBoundaryProbe(c *fw.Case) {
	r := c.R
	burn := []string{"0.5", "0.25", "0.2", "0.1", "0.333333333333333333", "0.75"}[r.Intn(6)]
	sd := disttypes.SubDistributor{Name: "boundary",
		Sources: []*disttypes.Account{{Type: disttypes.Main}},
		Destinations: disttypes.Destinations{BurnShare: sdk.MustNewDecFromStr(burn),
			PrimaryShare: disttypes.Account{Type: disttypes.ModuleAccount, Id: disttypes.GreenEnergyBoosterCollector}}}
	if r.Intn(2) == 0 {
		sd.Destinations.Shares = []*disttypes.DestinationShare{{Name: "s1", Share: sdk.MustNewDecFromStr("0.25"), Destination: disttypes.Account{Type: disttypes.ModuleAccount, Id: disttypes.GovernanceBoosterCollector}}}
	}
	sds := []disttypes.SubDistributor{sd}
	if (disttypes.Params{SubDistributors: sds}).Validate() != nil {
		sd.Destinations.Shares = nil // burn 0.75 + share 0.25 leaves nothing for the primary share
		sds = []disttypes.SubDistributor{sd}
	}
	if err := (disttypes.Params{SubDistributors: sds}).Validate(); err != nil {
		c.Inconclusive("boundary probe configuration rejected: %v", err)
		return
	}
	e := newDistKeys()
	e.exactBurn = true
	if err := e.start(cloneSubs(sds), nil); err != nil {
		c.Inconclusive("start: %v", err)
		return
	}
	c.Describe("burn-boundary", burn, len(sd.Destinations.Shares), c.Index)
	nBlocks := 12 + r.Intn(20)
	exact := 0
	for b := 0; b < nBlocks; b++ {
		if r.Intn(5) > 0 {
			amt := int64(1 + r.Intn(4))
			coins := sdk.NewCoins(sdk.NewCoin("uc4e", sdk.NewInt(amt)))
			if err := e.n.App.BankKeeper.SendCoinsFromAccountToModule(e.n.Ctx(), e.faucet.Addr, disttypes.DistributorMainAccount, coins); err == nil {
				e.model.External(true, e.mainAddr, model.Coins{"uc4e": new(big.Rat).SetInt64(amt)})
			}
		}
		before := e.n.Snap().Sup("uc4e")
		obs := e.step(e.keeper, nil, nil)
		if obs.panicked != nil {
			c.ViolateD("C01/beginblock-panic", obs.panicked.Stack, "distributor BeginBlocker panicked in block %d: %s", e.block, short(obs.panicked.Value, 200))
			return
		}
		// what the model burned in this block is an integer; if the burn books stood exactly
		// at a whole number before the payout, the boundary was exercised
		e.checkModel(c, obs, "C01")
		if c.NViol() > 0 {
			return
		}
		after := e.n.Snap().Sup("uc4e")
		burnedNow := new(big.Int)
		if bv := obs.burned["uc4e"]; bv != nil {
			burnedNow = model.Floor(bv)
		}
		want := new(big.Int).Sub(before, burnedNow)
		if after.Cmp(want) != 0 {
			c.Violate("C01/supply-vs-burn", "block %d: supply moved from %s to %s but %s was burned", e.block, before, after, obs.burned["uc4e"])
			return
		}
		if owed := e.model.Owed[model.BurnKey]; owed != nil && owed["uc4e"] != nil && owed["uc4e"].Sign() == 0 && obs.burned["uc4e"] != nil && obs.burned["uc4e"].Sign() > 0 {
			exact++
		}
		c.Count("blocks", 1)
	}
	c.Count("burns_that_emptied_the_books_exactly", int64(exact))
	c.Nontrivial(exact > 0)
}
