package mon

import (
	"fmt"
	"math/big"
	"math/rand"
	"time"

	"verifharness/chain"
	"verifharness/fw"
	"verifharness/gen"

	vestkeeper "github.com/chain4energy/c4e-chain/x/cfevesting/keeper"
	vesttypes "github.com/chain4energy/c4e-chain/x/cfevesting/types"
	sdk "github.com/cosmos/cosmos-sdk/types"
	authtypes "github.com/cosmos/cosmos-sdk/x/auth/types"
	vestingtypes "github.com/cosmos/cosmos-sdk/x/auth/vesting/types"
)

const c07SweepPerCase = 1500

func init() {
	fw.Register(&fw.Monitor{
		ID: "C07", Level: "exploration",
		Rule: "two kinds of cases. (a) odd indices: split/move-heavy vesting histories through signed DeliverTx (see C05) with the exact split-time oracle (sender's LockedCoins drop by exactly the amount per denomination, spendable unchanged, fresh recipient with original vesting = amount, end = sender end, start = max(now, sender start), valid splits never rejected) and, for families of accounts without delegations, " +
			"the later-time oracle: sum of LockedCoins over the family vs LockedCoins of the untouched original account (SDK account type as schedule function) at sampled times, slack (4*splits+2)*(1+3e-18*original). " +
			"(b) even indices: arithmetic sweep, 1500 splits per case straight through the module's message server on fresh continuous vesting accounts: original vesting 1..10^30, all time positions, amounts {1..5, locked, locked-1, random}, and hostile families (dyadic/short time fractions giving .5 ties, originals >= 2*10^18 of both parities, amounts u with u*OV = -j mod vesting). " +
			"Non-trivial: (a) >=3 successful splits incl. a chain of depth>=2; (b) >=50 hostile-family splits executed. Distinct by history / sweep seed.",
		Assumptions:   []string{"SDK ContinuousVestingAccount.LockedCoins is the schedule function (its 18-decimal time scalar is part of the documented behaviour)", "later-time slack derived in DESIGN.md C07"},
		Cases:         func(t string) int { return tierN(t, 192, 6000) },
		MinNontrivial: func(t string) int { return tierN(t, 60, 2000) },
		Run:           runC07,
	})
}

func runC07(c *fw.Case) {
	if c.Index%2 == 0 {
		runC07Sweep(c)
		return
	}
	e := runVestScenarioFamilies(c)
	if e == nil {
		return
	}
	c.Nontrivial(e.cov["splits_ok"] >= 3 && e.cov["max_lineage_or_family_depth"] >= 2)
}

// family bookkeeping for the later-time oracle
type c07Family struct {
	root     *vestingtypes.ContinuousVestingAccount // untouched copy of the original account
	members  []string
	splits   int
	tainted  bool // some member delegated / undelegated / was created with other semantics
	depth    map[string]int
	lastTime time.Time
}

func runVestScenarioFamilies(c *fw.Case) *vestEnv {
	e := runVestScenarioHooked(c, "split", []string{"C07"})
	return e
}

// c07AfterTx is called by the scenario runner after each observed transaction.
func (e *vestEnv) c07AfterTx(c *fw.Case, o *txOutcome) {
	if e.families == nil {
		e.families = map[string]*c07Family{}
		e.familyOf = map[string]string{}
	}
	op := o.op
	if op.kind == "delegate" || op.kind == "undelegate" {
		if f := e.families[e.familyOf[op.signer.Bech()]]; f != nil && o.res.Code == 0 {
			f.tainted = true
		}
		if o.res.Code == 0 {
			e.everDelegated[op.signer.Bech()] = true
		}
		return
	}
	if o.res.Code != 0 || (op.kind != "split" && op.kind != "move" && op.kind != "move-denoms") {
		return
	}
	from := op.owner
	rootAddr := e.familyOf[from]
	if rootAddr == "" {
		// new family: the sender's pre-state is the original
		acc := e.accountFromJSON(o.pre.Accounts[from])
		if acc == nil {
			return
		}
		rootAddr = from
		e.familyOf[from] = from
		e.families[from] = &c07Family{root: acc, members: []string{from}, depth: map[string]int{from: 0}, tainted: e.everDelegated[from] || len(acc.DelegatedVesting) > 0 || len(acc.DelegatedFree) > 0}
	}
	f := e.families[rootAddr]
	f.members = append(f.members, op.to)
	f.splits++
	f.depth[op.to] = f.depth[from] + 1
	if int64(f.depth[op.to]) > e.cov["max_lineage_or_family_depth"] {
		e.cov["max_lineage_or_family_depth"] = int64(f.depth[op.to])
	}
	f.lastTime = o.now
	e.familyOf[op.to] = rootAddr
	e.c07CheckFamily(c, f, o.now)
}

func (e *vestEnv) accountFromJSON(js string) *vestingtypes.ContinuousVestingAccount {
	var acc authtypes.AccountI
	if err := e.n.Enc.Marshaler.UnmarshalInterfaceJSON([]byte(js), &acc); err != nil {
		return nil
	}
	cva, _ := acc.(*vestingtypes.ContinuousVestingAccount)
	return cva
}

func (e *vestEnv) c07CheckFamily(c *fw.Case, f *c07Family, now time.Time) {
	if f.tainted {
		return
	}
	ctx := e.n.Ctx()
	var accs []*vestingtypes.ContinuousVestingAccount
	for _, m := range f.members {
		a, ok := e.n.App.AccountKeeper.GetAccount(ctx, sdk.MustAccAddressFromBech32(m)).(*vestingtypes.ContinuousVestingAccount)
		if !ok {
			return
		}
		if len(a.DelegatedVesting) > 0 || len(a.DelegatedFree) > 0 {
			return
		}
		accs = append(accs, a)
	}
	end := time.Unix(f.root.EndTime, 0)
	times := []time.Time{now.Add(time.Second), end.Add(-time.Second), end, end.Add(time.Second)}
	if end.After(now) {
		span := end.Sub(now)
		if span > 200*365*24*time.Hour {
			span = 200 * 365 * 24 * time.Hour
		}
		for i := 0; i < 4; i++ {
			times = append(times, now.Add(time.Duration(c.R.Int63n(int64(span)+1))))
		}
	}
	for _, t := range times {
		if t.Before(now) {
			continue
		}
		want := coinsMap(f.root.LockedCoins(t))
		got := map[string]*big.Int{}
		for _, a := range accs {
			for d, v := range coinsMap(a.LockedCoins(t)) {
				if got[d] == nil {
					got[d] = new(big.Int)
				}
				got[d].Add(got[d], v)
			}
		}
		for d := range unionKeys(want, got) {
			ov := f.root.OriginalVesting.AmountOf(d).BigInt()
			unit := new(big.Rat).Add(big.NewRat(1, 1), new(big.Rat).Mul(new(big.Rat).SetInt(ov), new(big.Rat).SetFrac(big.NewInt(3), new(big.Int).Exp(big.NewInt(10), big.NewInt(18), nil))))
			slack := new(big.Rat).Mul(big.NewRat(int64(4*f.splits+2), 1), unit)
			diff := new(big.Rat).SetInt(new(big.Int).Sub(bigOf(got, d), bigOf(want, d)))
			diff.Abs(diff)
			if diff.Cmp(slack) > 0 {
				c.ViolateD("C07/schedule-not-preserved", map[string]string{"root": f.root.String(), "members": fmt.Sprint(f.members), "t": fmtTime(t)},
					"at %s the %d accounts split off %s lock %s %s together, the untouched original would lock %s (slack %s after %d splits)", fmtTime(t), len(accs), short(f.members[0], 12), bigOf(got, d), d, bigOf(want, d), slack.FloatString(2), f.splits)
				return
			}
			c.Count("later_time_comparisons", 1)
		}
	}
}

// ---------------------------------------------------------------------------
// arithmetic sweep

func runC07Sweep(c *fw.Case) {
	faucet := chain.NewKey("sweep-faucet")
	huge := bigCoins(vDenom, 40)
	n, err := chain.NewNode(chain.GenesisSpec{Time: gen.Epoch, Accounts: []chain.GenAccount{{Account: authtypes.NewBaseAccount(faucet.Addr, nil, 0, 0), Coins: sdk.NewCoins(huge, bigCoins("foo", 40))}}})
	if err != nil {
		c.Inconclusive("node: %v", err)
		return
	}
	srv := vestkeeper.NewMsgServerImpl(n.App.CfevestingKeeper)
	c.Describe("sweep", c.Seed, c.Index)
	hostileHits := int64(0)
	var samples []string
	for i := 0; i < c07SweepPerCase; i++ {
		hostile := c.R.Intn(2) == 0
		ov, start, end, now, amt := c07GenSplit(c.R, hostile)
		from := chain.NewKey(fmt.Sprintf("sw-%d-%d", c.Index, i))
		to := chain.NewKey(fmt.Sprintf("sw-to-%d-%d", c.Index, i))
		ctx := n.Ctx().WithBlockTime(now)
		ovCoins := sdk.NewCoins(sdk.NewCoin(vDenom, sdk.NewIntFromBigInt(ov)))
		base := n.App.AccountKeeper.NewAccountWithAddress(ctx, from.Addr).(*authtypes.BaseAccount)
		cva := vestingtypes.NewContinuousVestingAccountRaw(vestingtypes.NewBaseVestingAccount(base, ovCoins, end), start)
		n.App.AccountKeeper.SetAccount(ctx, cva)
		if err := n.App.BankKeeper.SendCoins(ctx, faucet.Addr, from.Addr, ovCoins); err != nil {
			c.Inconclusive("fund: %v", err)
			return
		}
		lockedBefore := cva.LockedCoins(now).AmountOf(vDenom).BigInt()
		if lockedBefore.Sign() == 0 {
			continue
		}
		if amt.Cmp(lockedBefore) > 0 {
			amt = new(big.Int).Set(lockedBefore)
		}
		if amt.Sign() <= 0 {
			amt = big.NewInt(1)
		}
		spBefore := n.App.BankKeeper.SpendableCoins(ctx, from.Addr).AmountOf(vDenom).BigInt()
		msg := &vesttypes.MsgSplitVesting{FromAddress: from.Bech(), ToAddress: to.Bech(), Amount: sdk.NewCoins(sdk.NewCoin(vDenom, sdk.NewIntFromBigInt(amt)))}
		cctx, write := ctx.CacheContext()
		var serr error
		func() {
			defer func() {
				if r := recover(); r != nil {
					serr = fmt.Errorf("panic: %v", r)
					c.ViolateD("C20/split-panic", fmt.Sprint(r), "SplitVesting panicked: %v", r)
				}
			}()
			_, serr = srv.SplitVesting(sdk.WrapSDKContext(cctx), msg)
		}()
		desc := fmt.Sprintf("OV=%s start=%d end=%d now=%d amount=%s locked=%s", ov, start, end, now.Unix(), amt, lockedBefore)
		if serr != nil {
			c.ViolateD("C07/valid-split-rejected", map[string]string{"case": desc, "err": serr.Error()}, "split of %s (locked %s) rejected: %v", amt, lockedBefore, serr)
			return
		}
		write()
		c.Count("sweep_splits", 1)
		if hostile {
			hostileHits++
		}
		after, _ := n.App.AccountKeeper.GetAccount(ctx, from.Addr).(*vestingtypes.ContinuousVestingAccount)
		rec, _ := n.App.AccountKeeper.GetAccount(ctx, to.Addr).(*vestingtypes.ContinuousVestingAccount)
		if after == nil || rec == nil {
			c.ViolateD("C07/recipient-schedule", map[string]string{"case": desc}, "after the split sender/recipient are not continuous vesting accounts")
			return
		}
		lockedAfter := after.LockedCoins(now).AmountOf(vDenom).BigInt()
		dropped := new(big.Int).Sub(lockedBefore, lockedAfter)
		if dropped.Cmp(amt) != 0 {
			c.ViolateD("C07/unlocked-amount", map[string]string{"case": desc, "locked_after": lockedAfter.String(), "new_original_vesting": after.OriginalVesting.String()},
				"split of %s: sender's locked coins dropped by %s (%s)", amt, dropped, desc)
			return
		}
		spAfter := n.App.BankKeeper.SpendableCoins(ctx, from.Addr).AmountOf(vDenom).BigInt()
		if spAfter.Cmp(spBefore) != 0 {
			c.ViolateD("C07/spendable-changed", map[string]string{"case": desc}, "split changed the sender's spendable balance from %s to %s", spBefore, spAfter)
			return
		}
		wantStart := now.Unix()
		if start > wantStart {
			wantStart = start
		}
		if rec.OriginalVesting.AmountOf(vDenom).BigInt().Cmp(amt) != 0 || rec.EndTime != end || rec.StartTime != wantStart || rec.LockedCoins(now).AmountOf(vDenom).BigInt().Cmp(amt) != 0 {
			c.ViolateD("C07/recipient-schedule", map[string]string{"case": desc, "recipient": rec.String()}, "recipient does not lock %s with start %d end %d", amt, wantStart, end)
			return
		}
		// later times: both together vs the untouched original
		for _, frac := range []int64{1, 2, 3} {
			t := now.Add(time.Duration((end-now.Unix())*frac/4) * time.Second)
			want := cva.LockedCoins(t).AmountOf(vDenom).BigInt()
			got := new(big.Int).Add(after.LockedCoins(t).AmountOf(vDenom).BigInt(), rec.LockedCoins(t).AmountOf(vDenom).BigInt())
			unit := new(big.Rat).Add(big.NewRat(1, 1), new(big.Rat).Mul(new(big.Rat).SetInt(ov), new(big.Rat).SetFrac(big.NewInt(3), new(big.Int).Exp(big.NewInt(10), big.NewInt(18), nil))))
			slack := new(big.Rat).Mul(big.NewRat(6, 1), unit)
			diff := new(big.Rat).SetInt(new(big.Int).Sub(got, want))
			if diff.Abs(diff).Cmp(slack) > 0 {
				c.ViolateD("C07/schedule-not-preserved", map[string]string{"case": desc, "t": fmt.Sprint(t.Unix())}, "at %d sender+recipient lock %s, the untouched original %s", t.Unix(), got, want)
				return
			}
		}
		if len(samples) < 3 {
			samples = append(samples, desc)
		}
	}
	c.Count("sweep_hostile_splits", hostileHits)
	c.Nontrivial(hostileHits >= 50)
	c.Sample(map[string]interface{}{"kind": "sweep", "splits": c.Counter("sweep_splits"), "examples": samples})
}

// c07GenSplit draws (original vesting, start, end, now, amount).
func c07GenSplit(r *rand.Rand, hostile bool) (ov *big.Int, start, end int64, now time.Time, amt *big.Int) {
	start = gen.Epoch.Unix() + int64(r.Intn(1000))
	if !hostile {
		ov = new(big.Int).Add(gen.BigAmount(r, 30), big.NewInt(1))
		dur := int64(1 + r.Intn(10_000_000))
		end = start + dur
		pos := r.Int63n(dur + 1)
		switch r.Intn(8) {
		case 0:
			pos = 0
		case 1:
			pos = dur - 1
		case 2:
			pos = -int64(r.Intn(100)) // before start
		}
		now = time.Unix(start+pos, int64(r.Intn(1_000_000_000)))
		switch r.Intn(5) {
		case 0:
			amt = big.NewInt(int64(1 + r.Intn(5)))
		case 1:
			amt = new(big.Int).Exp(big.NewInt(10), big.NewInt(40), nil) // clipped to locked
		case 2:
			amt = new(big.Int).Sub(new(big.Int).Exp(big.NewInt(10), big.NewInt(40), nil), big.NewInt(1))
		default:
			amt = new(big.Int).Add(new(big.Int).Rand(r, ov), big.NewInt(1))
		}
		return
	}
	// hostile: large originals of both parities, tie-producing time fractions, near-integer quotients
	base := new(big.Int).Exp(big.NewInt(10), big.NewInt(int64(18+r.Intn(8))), nil)
	ov = new(big.Int).Mul(base, big.NewInt(int64(2+r.Intn(8))))
	ov.Add(ov, big.NewInt(int64(r.Intn(2000))-1000))
	if r.Intn(3) == 0 {
		ov = new(big.Int).Add(new(big.Int).Rand(r, new(big.Int).Mul(base, big.NewInt(8))), new(big.Int).Mul(base, big.NewInt(2)))
	}
	y := int64(2 + r.Intn(63))
	x := int64(1 + r.Intn(int(y-1)))
	scale := int64(1 + r.Intn(100000))
	dur := y * scale
	end = start + dur
	now = time.Unix(start+x*scale, 0)
	probe := vestingtypes.NewContinuousVestingAccountRaw(vestingtypes.NewBaseVestingAccount(authtypes.NewBaseAccount(nil, nil, 0, 0), sdk.NewCoins(sdk.NewCoin(vDenom, sdk.NewIntFromBigInt(ov))), end), start)
	v := probe.GetVestingCoins(now).AmountOf(vDenom).BigInt()
	switch r.Intn(4) {
	case 0:
		amt = big.NewInt(int64(1 + r.Intn(5)))
	case 1:
		// u with u*OV = -j (mod vesting): quotient a hair below an integer
		j := big.NewInt(int64(1 + r.Intn(3)))
		inv := new(big.Int).ModInverse(new(big.Int).Mod(ov, v), v)
		if inv != nil && v.Sign() > 0 {
			u := new(big.Int).Mul(new(big.Int).Neg(j), inv)
			u.Mod(u, v)
			if u.Sign() > 0 {
				amt = u
				break
			}
		}
		amt = big.NewInt(int64(1 + r.Intn(5)))
	case 2:
		amt = new(big.Int).Sub(v, big.NewInt(int64(r.Intn(3))))
	default:
		amt = new(big.Int).Add(new(big.Int).Rand(r, v), big.NewInt(1))
	}
	if amt.Sign() <= 0 {
		amt = big.NewInt(1)
	}
	return
}
