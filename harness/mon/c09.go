package mon

import (
	"fmt"
	"math/big"
	"time"

	"verifharness/chain"
	"verifharness/fw"
	"verifharness/gen"

	sigkeeper "github.com/chain4energy/c4e-chain/x/cfesignature/keeper"
	sigtypes "github.com/chain4energy/c4e-chain/x/cfesignature/types"
	vesttypes "github.com/chain4energy/c4e-chain/x/cfevesting/types"
	sdk "github.com/cosmos/cosmos-sdk/types"
	stakingtypes "github.com/cosmos/cosmos-sdk/x/staking/types"
)

var c09Msgs = []string{"send-restart", "send-norestart", "create-account", "split", "move", "move-denoms", "sig-create-valid-key", "sig-create-other-key", "sig-create-malformed"}
var c09Targets = []string{"absent", "base-nokey", "base-withkey", "base-empty", "continuous-vesting", "continuous-vesting-emptied", "continuous-vesting-all-delegated", "delayed-vesting", "module-materialised", "module-unmaterialised", "module-gov", "signer-itself"}
var c09Signers = []string{"proper", "stranger"}

func c09Combos() int { return len(c09Msgs) * len(c09Targets) * len(c09Signers) }

func init() {
	fw.Register(&fw.Monitor{
		ID: "C09", Level: "exploration", Exhaustive: true,
		Rule: "cases 0..N-1 enumerate the full cross product {pool send restart/no-restart, direct vesting-account creation, split, move, move-by-denoms, signature CreateAccount with the target's key / another key / malformed key} x " +
			"{absent, base account without key, base account with key and sequence, continuous vesting account, delayed vesting account, materialised module account, not yet materialised module address, the signer itself} x {proper signer, stranger} (144 combinations, each repeated with several seeds of amounts and block times); " +
			"the remaining cases are random vesting histories (as C05). Vesting messages go through signed DeliverTx; the signature module's messages are not routable on this tree and are executed on its real message server on a branched deliver-state context written back on success. " +
			"Oracle: field-wise diff of every pre-existing auth account (type, address, pubkey, account number, sequence, vesting fields); permitted: signer's sequence/pubkey, sender's own original_vesting after a successful split/move. " +
			"Non-trivial: the target existed before and the message reached its handler (was not rejected by stateless validation or the ante handler). Distinct by (combination, seed)." +
			" Targets include an account that was used and is empty, a vesting account that moved everything away, one that delegated everything (its cases run the routed handler on the block's own context), the governance module account; senders include the delayed vesting account; a new account must not take the account number of an existing one.",
		Assumptions:   []string{"exhaustive refers to the message x target-state x signer dimension; payload values are sampled"},
		Cases:         func(t string) int { return c09Combos()*tierN(t, 2, 40) + tierN(t, 96, 1500) },
		MinNontrivial: func(t string) int { return tierN(t, 60, 1000) },
		Run:           runC09,
	})
}

func runC09(c *fw.Case) {
	nCross := c09Combos() * tierN(c.Tier, 2, 40)
	if c.Index >= nCross {
		e := runVestScenario(c, "C09")
		if e != nil {
			c.Nontrivial(c.Counter("txs_rejected") > 0 && c.Counter("txs_ok") > 0)
		}
		return
	}
	combo := c.Index % c09Combos()
	mk := c09Msgs[combo%len(c09Msgs)]
	tk := c09Targets[(combo/len(c09Msgs))%len(c09Targets)]
	sk := c09Signers[combo/(len(c09Msgs)*len(c09Targets))]
	c.Describe(mk, tk, sk, c.Index/c09Combos())
	e, err := newVestEnv(c.R)
	if err != nil {
		c.Inconclusive("env: %v", err)
		return
	}
	now := gen.Epoch.Add(time.Duration(10+c.R.Intn(3000)) * time.Second)
	if _, err := e.n.BeginBlock(now); err != nil {
		c.Inconclusive("beginblock: %v", err)
		return
	}
	// materialise one module account
	e.n.App.AccountKeeper.GetModuleAccount(e.n.Ctx(), "green_energy_booster_collector")
	owner := e.owners[0]
	cva := e.cvaKeys[0]
	var signer chain.Key
	isSig := len(mk) > 3 && mk[:3] == "sig"
	switch {
	case mk == "split" || mk == "move" || mk == "move-denoms":
		signer = cva
	default:
		signer = owner
	}
	if sk == "stranger" {
		signer = e.strangers[0]
	}
	var target string
	unbranched := false
	var targetKey *chain.Key
	switch tk {
	case "absent":
		k := e.fresh()
		target, targetKey = k.Bech(), &k
	case "base-nokey":
		target, targetKey = e.baseNoKey.Bech(), &e.baseNoKey
	case "base-empty":
		target, targetKey = e.baseEmpty.Bech(), &e.baseEmpty
	case "base-withkey":
		target, targetKey = e.baseWithKey.Bech(), &e.baseWithKey
	case "continuous-vesting":
		k := e.cvaKeys[1]
		target, targetKey = k.Bech(), &k
	case "continuous-vesting-emptied":
		// a vesting account that moved everything it had locked to somebody else: it keeps its
		// key, number and sequence, its original vesting is empty
		k := e.cvaKeys[2]
		target, targetKey = k.Bech(), &k
		if res, derr := e.n.Deliver(k, &vesttypes.MsgMoveAvailableVesting{FromAddress: k.Bech(), ToAddress: e.fresh().Bech()}); derr != nil || res.Code != 0 {
			c.Count("emptied_vesting_target_not_emptied", 1)
		}
	case "continuous-vesting-all-delegated":
		// a vesting account whose whole balance is staked: it holds no coins at the moment.
		// These cases hand the message to the routed handler on the block's own context - a
		// refusal must be clean for a caller that has nothing to discard as well
		k := e.cvaKeys[0]
		target, targetKey = k.Bech(), &k
		bal := e.n.App.BankKeeper.GetBalance(e.n.Ctx(), k.Addr, vDenom)
		if res, derr := e.n.Deliver(k, &stakingtypes.MsgDelegate{DelegatorAddress: k.Bech(), ValidatorAddress: e.n.ValOper.String(), Amount: bal}); derr != nil || res.Code != 0 {
			c.Count("all_delegated_target_not_delegated", 1)
		}
		unbranched = true
	case "delayed-vesting":
		target, targetKey = e.delayed.Bech(), &e.delayed
	case "module-materialised":
		target = chain.ModuleAddr("green_energy_booster_collector")
	case "module-gov":
		target = e.govKey.Bech() // exists since genesis and is not on the bank's blocked list
	case "module-unmaterialised":
		target = chain.ModuleAddr("governance_booster_collector")
	case "signer-itself":
		target, targetKey = signer.Bech(), &signer
	}
	existed := e.n.Snap().Accounts[target] != ""
	pools := e.pools()[owner.Bech()]
	pool := pools[c.R.Intn(len(pools))]
	amt := e.randAmount(c.R, pool.locked())
	if c.R.Intn(2) == 0 {
		amt = new(big.Int).Add(new(big.Int).Rand(c.R, pool.locked()), big.NewInt(1))
	}
	if (c.Index/c09Combos())%2 == 1 {
		// every second repetition of a combination sends nothing at all: a zero amount passes
		// the stateless checks, and "nothing to transfer" must not be a way around the
		// existence guard
		amt = big.NewInt(0)
	}
	locked := e.n.App.BankKeeper.LockedCoins(e.n.Ctx(), cva.Addr)
	var op vOp
	switch mk {
	case "send-restart", "send-norestart":
		msg := &vesttypes.MsgSendToVestingAccount{Owner: signer.Bech(), ToAddress: target, VestingPoolName: pool.Name, Amount: sdk.NewIntFromBigInt(amt), RestartVesting: mk == "send-restart"}
		op = vOp{kind: "send", signer: signer, msg: msg, owner: signer.Bech(), to: target, pool: pool.Name, amount: amt, restart: mk == "send-restart", custom: true, desc: mk + " -> " + tk}
	case "create-account":
		coins := sdk.NewCoins(sdk.NewCoin(vDenom, sdk.NewInt(int64(1+c.R.Intn(1_000_000)))))
		st := now.Unix() + int64(c.R.Intn(100))
		msg := &vesttypes.MsgCreateVestingAccount{FromAddress: signer.Bech(), ToAddress: target, Amount: coins, StartTime: st, EndTime: st + int64(1+c.R.Intn(100000))}
		op = vOp{kind: "create-account", signer: signer, msg: msg, owner: signer.Bech(), to: target, coins: coins, start: msg.StartTime, end: msg.EndTime, custom: true, desc: mk + " -> " + tk}
	case "split":
		a := new(big.Int).Add(new(big.Int).Rand(c.R, locked.AmountOf(vDenom).BigInt()), big.NewInt(1))
		coins := sdk.NewCoins(sdk.NewCoin(vDenom, sdk.NewIntFromBigInt(a)))
		msg := &vesttypes.MsgSplitVesting{FromAddress: signer.Bech(), ToAddress: target, Amount: coins}
		op = vOp{kind: "split", signer: signer, msg: msg, owner: signer.Bech(), to: target, coins: coins, custom: true, desc: mk + " -> " + tk}
	case "move":
		msg := &vesttypes.MsgMoveAvailableVesting{FromAddress: signer.Bech(), ToAddress: target}
		op = vOp{kind: "move", signer: signer, msg: msg, owner: signer.Bech(), to: target, custom: true, desc: mk + " -> " + tk}
	case "move-denoms":
		msg := &vesttypes.MsgMoveAvailableVestingByDenoms{FromAddress: signer.Bech(), ToAddress: target, Denoms: []string{vDenom}}
		op = vOp{kind: "move-denoms", signer: signer, msg: msg, owner: signer.Bech(), to: target, denoms: []string{vDenom}, custom: true, desc: mk + " -> " + tk}
	}
	if !isSig {
		op.unbranched = unbranched
		o, err := e.exec(op, now)
		if err != nil {
			if p := asPanic(err); p != nil {
				c.ViolateD("C20/deliver-panic/"+op.kind, p.Stack, "%s: %s", op.desc, short(p.Value, 200))
			}
			c.KeepViolations("C09/")
			return
		}
		e.observe(c, o)
		c.KeepViolations("C09/")
		reached := o.res.Code == 0 || (o.res.Codespace != "sdk" || (o.res.Code != 4 && o.res.Code != 5 && o.res.Code != 13 && o.res.Code != 32))
		c.Nontrivial(existed && reached)
		c.Count("cross_product_cases", 1)
		if o.res.Code == 0 {
			c.Count("cross_product_accepted", 1)
		}
		c.Sample(map[string]interface{}{"message": mk, "target": tk, "signer": sk, "code": o.res.Code, "log": short(o.res.Log, 160)})
		return
	}
	// signature module: CreateAccount
	var pkJSON string
	switch mk {
	case "sig-create-valid-key":
		k := signer
		if targetKey != nil {
			k = *targetKey
		}
		bz, _ := e.n.Enc.Marshaler.MarshalInterfaceJSON(k.Priv.PubKey())
		pkJSON = string(bz)
	case "sig-create-other-key":
		bz, _ := e.n.Enc.Marshaler.MarshalInterfaceJSON(chain.NewKey(fmt.Sprintf("other-%d", c.Index)).Priv.PubKey())
		pkJSON = string(bz)
	default:
		pkJSON = []string{"", "{", `{"@type":"/cosmos.crypto.secp256k1.PubKey","key":"AAAA"}`, `{"@type":"/unknown.Type","key":"AA=="}`, "null"}[c.R.Intn(5)]
	}
	msg := &sigtypes.MsgCreateAccount{Creator: signer.Bech(), AccAddressString: target, PubKeyString: pkJSON}
	pre := e.n.Snap()
	reached, accepted, perr := e.execSig(msg)
	post := e.n.Snap()
	if perr != nil {
		c.Count("signature_handler_panics", 1)
	}
	for addr, a := range pre.Accounts {
		if post.Accounts[addr] != a {
			c.ViolateD("C09/existing-account-changed/sig-create-account", map[string]string{"message": mk, "target": tk, "address": addr, "before": a, "after": post.Accounts[addr]},
				"signature CreateAccount (%s, target %s) changed the existing account %s: %s -> %s", mk, tk, short(addr, 14), short(a, 200), short(post.Accounts[addr], 200))
		}
	}
	c.Nontrivial(existed && reached)
	c.Count("cross_product_cases", 1)
	if accepted {
		c.Count("cross_product_accepted", 1)
	}
	c.Sample(map[string]interface{}{"message": mk, "target": tk, "signer": sk, "accepted": accepted, "panicked": perr != nil})
}

// execSig runs a signature-module message the way baseapp would if the service
// were registered: ValidateBasic, then the real message server on a branched
// deliver-state context that is written back only on success. If the router
// knows the message it is additionally sent through DeliverTx.
func (e *vestEnv) execSig(msg sdk.Msg) (reached, accepted bool, panicErr *chain.PanicError) {
	return execSigOn(e.n, msg)
}

func execSigOn(n *chain.Node, msg sdk.Msg) (reached, accepted bool, panicErr *chain.PanicError) {
	n.RecordMsg("sig", msg)
	defer func() { n.DigestNote("sig", accepted, nil) }()
	func() {
		defer func() {
			if r := recover(); r != nil {
				panicErr = &chain.PanicError{Where: "ValidateBasic", Value: fmt.Sprint(r)}
			}
		}()
		if err := msg.ValidateBasic(); err != nil {
			return
		}
		reached = true
	}()
	if !reached || panicErr != nil {
		return
	}
	srv := sigkeeper.NewMsgServerImpl(n.App.CfesignatureKeeper)
	err := n.ExecOnBranch(func(ctx sdk.Context) error {
		var err error
		switch m := msg.(type) {
		case *sigtypes.MsgCreateAccount:
			_, err = srv.CreateAccount(sdk.WrapSDKContext(ctx), m)
		case *sigtypes.MsgStoreSignature:
			_, err = srv.StoreSignature(sdk.WrapSDKContext(ctx), m)
		case *sigtypes.MsgPublishReferencePayloadLink:
			_, err = srv.PublishReferencePayloadLink(sdk.WrapSDKContext(ctx), m)
		}
		return err
	})
	if p := asPanic(err); p != nil {
		return true, false, p
	}
	return true, err == nil, nil
}
