package mon

import (
	"fmt"
	banktypes "github.com/cosmos/cosmos-sdk/x/bank/types"
	"math/big"
	"math/rand"
	"os"
	"runtime/debug"
	"sort"
	"strings"
	"time"

	"verifharness/chain"
	"verifharness/fw"
	"verifharness/gen"
	"verifharness/model"

	appparams "github.com/chain4energy/c4e-chain/app/params"
	"github.com/chain4energy/c4e-chain/x/cfedistributor"
	distkeeper "github.com/chain4energy/c4e-chain/x/cfedistributor/keeper"
	disttypes "github.com/chain4energy/c4e-chain/x/cfedistributor/types"
	sdk "github.com/cosmos/cosmos-sdk/types"
	authtypes "github.com/cosmos/cosmos-sdk/x/auth/types"
	vestingtypes "github.com/cosmos/cosmos-sdk/x/auth/vesting/types"
	abci "github.com/tendermint/tendermint/abci/types"
)

var distDenoms = []string{"uc4e", "foo", "ibc/27394FB092D2ECCD56123C74F36E4C1F926001CEADA9CA97EA622B25F41E5EB2"}

// distEnv is a bench-driven chain for distributor monitors: the distributor's
// BeginBlocker is called directly on the app's stores so that the books can be
// observed right after it ran.
type distEnv struct {
	n *chain.Node
	// inflows are multiples of 20^5 (used together with gen.DistOpts.NiceShares)
	wholeAmounts    bool
	tinyWhole       bool // whole amounts of a few dozen base units
	exactBurn       bool // compare the burned total with the model block by block (C01)
	userSendsToMain int  // accepted user transfers to the main account (expected: none)
	faucet          chain.Key
	bases           []chain.Key
	vesting         chain.Key
	blocked         string
	// occupiedModule names a module account of the configuration whose address holds a base
	// account (put there through a grant before anything used the module account): paying it
	// fails like any other refused transfer, the coins stay booked
	occupiedModule string
	mainAddr       string
	keeper         distkeeper.Keeper
	model          *model.Distributor
	subs           []model.DSub
	receipts       map[string]model.Coins // address or BURN -> cumulative gross receipts from main
	assigned       map[string]model.Coins // destination key -> cumulative amounts reported by Distribution events
	block          int
	time           time.Time
}

func distOpts(e *distEnv, alias bool) gen.DistOpts {
	var addrs []string
	for _, b := range e.bases {
		addrs = append(addrs, b.Bech())
	}
	return gen.DistOpts{BaseAddrs: addrs, VestingAddr: e.vesting.Bech(), BlockedAddr: e.blocked, AliasInternal: alias, MainAliases: alias}
}

func newDistKeys() *distEnv {
	e := &distEnv{faucet: chain.NewKey("faucet"), vesting: chain.NewKey("locked-source")}
	for i := 0; i < 4; i++ {
		e.bases = append(e.bases, chain.NewKey(fmt.Sprintf("base%d", i)))
	}
	e.blocked = chain.ModuleAddr("distribution")
	e.mainAddr = chain.ModuleAddr(disttypes.DistributorMainAccount)
	return e
}

func (e *distEnv) start(sds []disttypes.SubDistributor, states []*disttypes.State) error {
	huge, _ := new(big.Int).SetString("1"+strings.Repeat("0", 45), 10)
	var fc sdk.Coins
	for _, d := range distDenoms {
		fc = fc.Add(sdk.NewCoin(d, sdk.NewIntFromBigInt(huge)))
	}
	accs := []chain.GenAccount{{Account: authtypes.NewBaseAccount(e.faucet.Addr, nil, 0, 0), Coins: fc}}
	for _, b := range e.bases {
		accs = append(accs, chain.GenAccount{Account: authtypes.NewBaseAccount(b.Addr, nil, 0, 0)})
	}
	// a continuous vesting account whose coins stay locked: sweeping it fails
	lockedCoins := sdk.NewCoins(sdk.NewCoin("uc4e", sdk.NewInt(777)))
	bva := vestingtypes.NewBaseVestingAccount(authtypes.NewBaseAccount(e.vesting.Addr, nil, 0, 0), lockedCoins, gen.Epoch.Add(200*365*24*time.Hour).Unix())
	accs = append(accs, chain.GenAccount{Account: vestingtypes.NewContinuousVestingAccountRaw(bva, gen.Epoch.Add(100*365*24*time.Hour).Unix()), Coins: lockedCoins})
	n, err := chain.NewNode(chain.GenesisSpec{Time: gen.Epoch, Accounts: accs, Distributor: &disttypes.GenesisState{Params: disttypes.Params{SubDistributors: sds}, States: states}})
	if err != nil {
		return err
	}
	e.n = n
	if e.occupiedModule != "" {
		ak := n.App.AccountKeeper
		ctx := n.Ctx()
		if addr := authtypes.NewModuleAddress(e.occupiedModule); ak.GetAccount(ctx, addr) == nil {
			ak.SetAccount(ctx, ak.NewAccountWithAddress(ctx, addr))
		} else {
			e.occupiedModule = ""
		}
	}
	e.keeper = n.App.CfedistributorKeeper
	e.model = model.NewDistributor()
	e.receipts = map[string]model.Coins{}
	e.assigned = map[string]model.Coins{}
	e.time = gen.Epoch
	e.reloadSubs()
	return nil
}

func toRatDec(d sdk.Dec) *big.Rat {
	return new(big.Rat).SetFrac(d.BigInt(), new(big.Int).Exp(big.NewInt(10), big.NewInt(18), nil))
}

func toDAcc(a disttypes.Account) model.DAccount { return model.DAccount{Type: a.Type, ID: a.Id} }

func (e *distEnv) reloadSubs() {
	params := e.n.App.CfedistributorKeeper.GetParams(e.n.Ctx())
	e.subs = toModelSubs(params.SubDistributors)
}

func toModelSubs(sds []disttypes.SubDistributor) []model.DSub {
	var out []model.DSub
	for _, sd := range sds {
		m := model.DSub{Name: sd.Name, Burn: toRatDec(sd.Destinations.BurnShare), Primary: toDAcc(sd.Destinations.PrimaryShare)}
		for _, s := range sd.Sources {
			m.Sources = append(m.Sources, toDAcc(*s))
		}
		for _, sh := range sd.Destinations.Shares {
			m.Shares = append(m.Shares, model.DShare{Name: sh.Name, Dest: toDAcc(sh.Destination), Share: toRatDec(sh.Share)})
		}
		out = append(out, m)
	}
	return out
}

func (e *distEnv) addrOf(a model.DAccount) string {
	switch a.Type {
	case model.KMain:
		return e.mainAddr
	case model.KModule:
		return chain.ModuleAddr(a.ID)
	case model.KBase:
		return strings.ToLower(a.ID) // the bank knows one account per address, however it is spelled
	}
	return ""
}

func coinsOf(ctx sdk.Context, n *chain.Node, addr string) model.Coins {
	out := model.Coins{}
	a, err := sdk.AccAddressFromBech32(addr)
	if err != nil {
		return out
	}
	for _, c := range n.App.BankKeeper.GetAllBalances(ctx, a) {
		out[c.Denom] = new(big.Rat).SetInt(c.Amount.BigInt())
	}
	return out
}

func randCoins(r *rand.Rand) sdk.Coins {
	coins := sdk.NewCoins()
	nd := 1 + r.Intn(len(distDenoms))
	perm := r.Perm(len(distDenoms))
	for i := 0; i < nd; i++ {
		var amt *big.Int
		switch r.Intn(6) {
		case 0:
			amt = big.NewInt(1)
		case 1:
			amt = big.NewInt(int64(1 + r.Intn(1000)))
		case 2:
			amt = gen.BigAmount(r, 24)
		default:
			amt = big.NewInt(1 + r.Int63n(1_000_000_000_000))
		}
		if amt.Sign() <= 0 {
			continue
		}
		coins = coins.Add(sdk.NewCoin(distDenoms[perm[i]], sdk.NewIntFromBigInt(amt)))
	}
	return coins
}

// inflow sends random coins from the faucet into the sources (and the main
// account). The amounts depend only on (seed, block, address), not on the order
// in which sources are listed, so that permuted twins get identical inflows.
func (e *distEnv) inflow(r *rand.Rand) (total int) {
	seed := r.Int63()
	type tgt struct {
		addr string
		s    model.DAccount
	}
	seen := map[string]bool{}
	var tgts []tgt
	for _, sd := range e.subs {
		for _, s := range sd.Sources {
			if s.Type == model.KInternal {
				continue
			}
			addr := e.addrOf(s)
			if seen[addr] {
				continue
			}
			seen[addr] = true
			tgts = append(tgts, tgt{addr, s})
		}
	}
	sort.Slice(tgts, func(i, j int) bool { return tgts[i].addr < tgts[j].addr })
	for _, t := range tgts {
		rr := rand.New(rand.NewSource(fw.CaseSeed(seed, t.addr, e.block)))
		if rr.Intn(3) == 0 {
			continue
		}
		to, err := sdk.AccAddressFromBech32(t.addr)
		if err != nil {
			continue
		}
		coins := randCoins(rr)
		if e.wholeAmounts {
			// multiples of 20^5: with 5% shares nothing fractional is ever left anywhere
			w := sdk.NewCoins()
			for _, cn := range coins {
				if e.tinyWhole {
					// 20, 40, ... 100: 5% shares of them are exactly 1, 2, ... 5 base units
					w = w.Add(sdk.NewCoin(cn.Denom, cn.Amount.ModRaw(5).AddRaw(1).MulRaw(20)))
					continue
				}
				w = w.Add(sdk.NewCoin(cn.Denom, cn.Amount.ModRaw(1000).AddRaw(1).MulRaw(3_200_000)))
			}
			coins = w
		}
		switch t.s.Type {
		case model.KMain:
			// module accounts are paid by name so that they are materialised as module accounts
			err = e.n.App.BankKeeper.SendCoinsFromAccountToModule(e.n.Ctx(), e.faucet.Addr, disttypes.DistributorMainAccount, coins)
		case model.KModule:
			if t.s.ID == e.occupiedModule {
				continue // nothing can be paid in by name, and nobody would pay the squatter
			}
			err = e.n.App.BankKeeper.SendCoinsFromAccountToModule(e.n.Ctx(), e.faucet.Addr, t.s.ID, coins)
		default:
			err = e.n.Send(e.faucet.Addr, to, coins)
		}
		if err == nil {
			total++
			ext := model.Coins{}
			for _, cn := range coins {
				ext[cn.Denom] = new(big.Rat).SetInt(cn.Amount.BigInt())
			}
			e.model.External(t.s.Type == model.KMain, t.addr, ext)
		}
	}
	return total
}

type distBlockObs struct {
	panicked *chain.PanicError
	events   []abci.Event
	states   []disttypes.State
	mainBal  model.Coins
	burned   model.Coins
}

// step runs one distributor block with keeper k (the app's own or a faulty twin).
func (e *distEnv) step(k distkeeper.Keeper, payoutFails func(key string) bool, sweepFails func(key string, attempt int) bool) (obs distBlockObs) {
	return e.stepLazy(k, func() (func(string) bool, func(string, int) bool) { return payoutFails, sweepFails })
}

// stepLazy is step with the failure predicates determined after the real run.
func (e *distEnv) stepLazy(k distkeeper.Keeper, preds func() (func(string) bool, func(string, int) bool)) (obs distBlockObs) {
	e.block++
	e.time = e.time.Add(5 * time.Second)
	e.n.Time = e.time
	ctx := e.n.Ctx()
	func() {
		defer func() {
			if r := recover(); r != nil {
				obs.panicked = &chain.PanicError{Where: "cfedistributor.BeginBlocker", Value: fmt.Sprint(r), Stack: string(debug.Stack())}
			}
		}()
		cfedistributor.BeginBlocker(ctx, k)
	}()
	if obs.panicked != nil {
		return
	}
	// a user transaction inside the block: plain transfers to the distributor's main account
	// are refused by the bank (blocked address). If one got through, the books checked at the
	// end of this block could not match the balance.
	if e.block%3 == 0 {
		msg := &banktypes.MsgSend{FromAddress: e.faucet.Bech(), ToAddress: e.mainAddr, Amount: sdk.NewCoins(sdk.NewCoin("uc4e", sdk.NewInt(int64(1+e.block%977))))}
		if h := e.n.App.MsgServiceRouter().Handler(msg); h != nil {
			cctx, write := e.n.Ctx().CacheContext()
			if _, herr := h(cctx, msg); herr == nil {
				write()
				e.userSendsToMain++
			}
		}
	}
	obs.events = ctx.EventManager().ABCIEvents()
	obs.states = e.n.App.CfedistributorKeeper.GetAllStates(e.n.Ctx())
	obs.mainBal = coinsOf(e.n.Ctx(), e.n, e.mainAddr)
	// model
	payoutFails, sweepFails := preds()
	if payoutFails == nil {
		payoutFails = func(key string) bool {
			return key == model.KBase+"-"+e.blocked || (e.occupiedModule != "" && key == model.KModule+"-"+e.occupiedModule)
		}
	}
	e.model.Block(e.subs, e.addrOf, payoutFails, sweepFails)
	if os.Getenv("DIST_DEBUG") != "" {
		fmt.Fprintf(os.Stderr, "--- block %d\n", e.block)
		for _, sd := range e.subs {
			if in, ok := e.model.Inflow[sd.Name]; ok {
				fmt.Fprintf(os.Stderr, "   model inflow %s = %s\n", sd.Name, coinsStr(in))
			}
		}
		for _, ev := range chain.Flatten(obs.events) {
			if strings.Contains(ev.Type, "Distribution") {
				fmt.Fprintf(os.Stderr, "   ev %s %s -> %s : %s\n", ev.Attrs["subdistributor"], ev.Attrs["share_name"], ev.Attrs["destination"], ev.Attrs["amount"])
			}
		}
		for _, st := range obs.states {
			fmt.Fprintf(os.Stderr, "   state %s = %s | model owed %s\n", stateKey(st), st.Remains.String(), coinsStr(e.model.Owed[stateKey(st)]))
		}
	}
	// receipts from bank events
	led, err := chain.Ledger(obs.events)
	if err == nil {
		for _, t := range led.Transfers {
			if t.From == e.mainAddr && t.To != e.mainAddr {
				if e.receipts[t.To] == nil {
					e.receipts[t.To] = model.Coins{}
				}
				for d, v := range t.Coins {
					e.receipts[t.To].Add(model.Coins{d: new(big.Rat).SetInt(v)})
				}
			}
		}
		obs.burned = model.Coins{}
		for d, v := range led.Burned {
			obs.burned[d] = new(big.Rat).SetInt(v)
		}
		if e.receipts[model.BurnKey] == nil {
			e.receipts[model.BurnKey] = model.Coins{}
		}
		e.receipts[model.BurnKey].Add(obs.burned)
	}
	for _, ev := range chain.Flatten(obs.events) {
		isDist := strings.HasSuffix(ev.Type, "cfedistributor.Distribution")
		isBurn := strings.HasSuffix(ev.Type, "cfedistributor.DistributionBurn")
		if !isDist && !isBurn {
			continue
		}
		amt, ok := parseDecCoinsJSON(ev.Attrs["amount"])
		if !ok {
			continue
		}
		key := model.BurnKey
		if isDist {
			t, id := parseAccountJSON(ev.Attrs["destination"])
			key = t + "-" + id
		}
		if e.assigned[key] == nil {
			e.assigned[key] = model.Coins{}
		}
		e.assigned[key].Add(amt)
	}
	return
}

func decCoinsToModel(dc sdk.DecCoins) model.Coins {
	out := model.Coins{}
	for _, c := range dc {
		out[c.Denom] = toRatDec(c.Amount)
	}
	return out
}

func stateKey(s disttypes.State) string {
	if s.Burn {
		return model.BurnKey
	}
	if s.Account == nil {
		return "NIL-ACCOUNT"
	}
	return s.Account.Type + "-" + s.Account.Id
}

// checkBooks verifies the C03 identities on an observation.
func (e *distEnv) checkBooks(c *fw.Case, obs distBlockObs, pfx string) {
	sum := model.Coins{}
	for _, s := range obs.states {
		for _, dc := range s.Remains {
			if dc.Amount.IsNegative() {
				c.ViolateD(pfx+"/negative-remains", e.describe(), "block %d: state %s has negative remains %s", e.block, stateKey(s), dc)
				return
			}
		}
		sum.Add(decCoinsToModel(s.Remains))
	}
	denoms := map[string]bool{}
	for d := range sum {
		denoms[d] = true
	}
	for d := range obs.mainBal {
		denoms[d] = true
	}
	for d := range denoms {
		sv := sum[d]
		if sv == nil {
			sv = new(big.Rat)
		}
		if !sv.IsInt() {
			c.ViolateD(pfx+"/sum-not-integer", e.describe(), "block %d: sum of remains of %s is %s", e.block, d, sv.FloatString(18))
			return
		}
		bv := obs.mainBal[d]
		if bv == nil {
			bv = new(big.Rat)
		}
		if sv.Cmp(bv) != 0 {
			c.ViolateD(pfx+"/books-vs-balance", e.describe(), "block %d: sum of remains %s%s != main account balance %s%s", e.block, sv.FloatString(0), d, bv.FloatString(0), d)
			return
		}
	}
	// the module's own invariants as a cross-check of the recomputation
	ctx := e.n.Ctx()
	if msg, broken := distkeeper.NonNegativeCoinStateInvariant(e.n.App.CfedistributorKeeper)(ctx); broken {
		c.Violate(pfx+"/module-invariant-nonnegative", "block %d: %s", e.block, msg)
	}
	if msg, broken := distkeeper.StateSumBalanceCheckInvariant(e.n.App.CfedistributorKeeper)(ctx); broken {
		c.Violate(pfx+"/module-invariant-sum", "block %d: %s", e.block, msg)
	}
}

func (e *distEnv) describe() map[string]interface{} {
	var lines []string
	for _, sd := range e.subs {
		var src, sh []string
		for _, s := range sd.Sources {
			src = append(src, s.Key())
		}
		for _, s := range sd.Shares {
			sh = append(sh, fmt.Sprintf("%s->%s:%s", s.Name, s.Dest.Key(), s.Share.FloatString(18)))
		}
		lines = append(lines, fmt.Sprintf("%s: sources[%s] shares[%s] burn=%s primary=%s", sd.Name, strings.Join(src, ","), strings.Join(sh, ","), sd.Burn.FloatString(18), sd.Primary.Key()))
	}
	return map[string]interface{}{"subdistributors": lines, "block": e.block}
}

func (e *distEnv) configString() string {
	d := e.describe()
	return strings.Join(d["subdistributors"].([]string), " ;; ")
}

// checkModel verifies the C04 comparison against the closed exact model:
// (1) per destination key (named share, burn, primary; module, base and internal
// accounts) the cumulative amount assigned by the real code (Distribution /
// DistributionBurn events) vs the model, (2) independently of the events, per
// address the coins the destination holds plus what is still recorded for it
// (bank balance + remains; burned total + burn remains; internal remains) vs
// the model's holdings, and the main account balance vs the model's.
func (e *distEnv) checkModel(c *fw.Case, obs distBlockObs, pfx string) {
	one := big.NewRat(1, 1)
	cmp := func(what, name string, real, mod model.Coins) bool {
		denoms := map[string]bool{}
		for d := range real {
			denoms[d] = true
		}
		for d := range mod {
			denoms[d] = true
		}
		for d := range denoms {
			rv, mv := real[d], mod[d]
			if rv == nil {
				rv = new(big.Rat)
			}
			if mv == nil {
				mv = new(big.Rat)
			}
			diff := new(big.Rat).Sub(rv, mv)
			diff.Abs(diff)
			if diff.Cmp(one) > 0 {
				det := e.describe()
				det["destination"] = name
				det["denom"] = d
				det["real"] = rv.FloatString(18)
				det["model"] = mv.FloatString(18)
				c.ViolateD(pfx+"/share-drift/"+what, det, "block %d: %s of %s in %s: real %s vs model %s (drift > 1 base unit)", e.block, what, name, short(d, 12), rv.FloatString(3), mv.FloatString(3))
				return false
			}
			atto := new(big.Rat).Mul(diff, big.NewRat(1_000_000_000_000, 1))
			c.Max("max_drift_1e-12_units_"+what, model.Floor(atto).Int64())
		}
		return true
	}
	if e.exactBurn {
		// supply side (C01): what has been burned so far is exactly what the configuration
		// burns - a burn share that has reached a whole coin is burned in that block
		real, mod := get0(e.receipts, model.BurnKey), get0(e.model.Paid, model.BurnKey)
		if !coinsClose(real, mod, new(big.Rat)) {
			c.ViolateD(pfx+"/burn-vs-model", e.describe(), "block %d: %s burned so far, the configuration burns %s", e.block, coinsStr(real), coinsStr(mod))
			return
		}
		c.Count("exact_burn_blocks", 1)
	}
	// (1) cumulative assignments
	keys := map[string]bool{}
	for k := range e.assigned {
		keys[k] = true
	}
	for k := range e.model.Cum {
		keys[k] = true
	}
	var ks []string
	for k := range keys {
		ks = append(ks, k)
	}
	sort.Strings(ks)
	for _, k := range ks {
		r, m := e.assigned[k], e.model.Cum[k]
		if r == nil {
			r = model.Coins{}
		}
		if m == nil {
			m = model.Coins{}
		}
		if !cmp("cumulative-assignment", k, r, m) {
			return
		}
	}
	// (2) holdings
	remains := map[string]model.Coins{}
	for _, s := range obs.states {
		k := stateKey(s)
		if remains[k] == nil {
			remains[k] = model.Coins{}
		}
		remains[k].Add(decCoinsToModel(s.Remains))
	}
	realHold := map[string]model.Coins{}
	modHold := map[string]model.Coins{}
	get := func(m map[string]model.Coins, k string) model.Coins {
		if m[k] == nil {
			m[k] = model.Coins{}
		}
		return m[k]
	}
	groupOf := func(k string) string {
		if k == model.BurnKey || strings.HasPrefix(k, model.KInternal+"-") {
			return k
		}
		if strings.HasPrefix(k, model.KModule+"-") {
			return chain.ModuleAddr(strings.TrimPrefix(k, model.KModule+"-"))
		}
		if strings.HasPrefix(k, model.KBase+"-") {
			return strings.ToLower(strings.TrimPrefix(k, model.KBase+"-"))
		}
		return k
	}
	for k, r := range remains {
		get(realHold, groupOf(k)).Add(r)
	}
	for k, o := range e.model.Owed {
		get(modHold, groupOf(k)).Add(o)
	}
	get(realHold, model.BurnKey).Add(get(e.receipts, model.BurnKey))
	get(modHold, model.BurnKey).Add(get(e.model.Paid, model.BurnKey))
	addrs := map[string]bool{}
	for a := range e.model.Bal {
		addrs[a] = true
	}
	for g := range realHold {
		if strings.HasPrefix(g, "c4e1") {
			addrs[g] = true
		}
	}
	for g := range e.receipts {
		if strings.HasPrefix(g, "c4e1") {
			addrs[g] = true
		}
	}
	ctx := e.n.Ctx()
	for a := range addrs {
		acc, err := sdk.AccAddressFromBech32(a)
		if err != nil {
			continue
		}
		sp := model.Coins{}
		for _, cn := range e.n.App.BankKeeper.SpendableCoins(ctx, acc) {
			sp[cn.Denom] = new(big.Rat).SetInt(cn.Amount.BigInt())
		}
		get(realHold, a).Add(sp)
		get(modHold, a).Add(get(e.model.Bal, a))
	}
	groups := map[string]bool{}
	for g := range realHold {
		groups[g] = true
	}
	for g := range modHold {
		groups[g] = true
	}
	var gs []string
	for g := range groups {
		gs = append(gs, g)
	}
	sort.Strings(gs)
	for _, g := range gs {
		if !cmp("holdings", g, get(realHold, g), get(modHold, g)) {
			return
		}
	}
	// (the main account's balance itself is not compared here: it legitimately differs
	// by the integer payouts whose timing depends on sub-unit fractions; C03 checks it
	// against the recorded remains)
}

// checkEvents verifies the C18 statements about Distribution / DistributionBurn events.
func (e *distEnv) checkEvents(c *fw.Case, obs distBlockObs, pfx string) {
	type agg struct{ total model.Coins }
	bySub := map[string]model.Coins{}
	parse := func(s string) (model.Coins, bool) {
		s = chain.Unq(s)
		out := model.Coins{}
		if s == "" {
			return out, true
		}
		dcs, err := sdk.ParseDecCoins(s)
		if err != nil {
			return nil, false
		}
		return decCoinsToModel(dcs), true
	}
	tol := big.NewRat(1, 1_000_000_000)
	for _, ev := range chain.Flatten(obs.events) {
		isDist := strings.HasSuffix(ev.Type, "cfedistributor.Distribution")
		isBurn := strings.HasSuffix(ev.Type, "cfedistributor.DistributionBurn")
		if !isDist && !isBurn {
			continue
		}
		c.Count("distribution_events", 1)
		sub := chain.Unq(ev.Attrs["subdistributor"])
		amt, ok := parseDecCoinsJSON(ev.Attrs["amount"])
		if !ok {
			if amt, ok = parse(ev.Attrs["amount"]); !ok {
				c.Violate(pfx+"/event-unparsable", "block %d: cannot parse event amount %q", e.block, ev.Attrs["amount"])
				return
			}
		}
		if bySub[sub] == nil {
			bySub[sub] = model.Coins{}
		}
		bySub[sub].Add(amt)
		// individual event vs the model's assignment for that destination
		var key string
		if isBurn {
			key = model.BurnKey
		} else {
			t, id := parseAccountJSON(ev.Attrs["destination"])
			key = t + "-" + id
		}
		want := e.model.Assigned[sub][key]
		if want == nil {
			want = model.Coins{}
		}
		if !coinsClose(amt, want, tol) {
			c.ViolateD(pfx+"/event-vs-assignment", e.describe(), "block %d: event of %s for %s reports %s, model assigned %s", e.block, sub, key, coinsStr(amt), coinsStr(want))
			return
		}
	}
	for sub, inflow := range e.model.Inflow {
		want := inflow.Clone()
		want.Sub(e.model.MainKept[sub])
		got := bySub[sub]
		if got == nil {
			got = model.Coins{}
		}
		if !coinsClose(got, want, tol) {
			c.ViolateD(pfx+"/events-vs-inflow", e.describe(), "block %d: events of %s add up to %s, inflow minus parts kept on MAIN is %s", e.block, sub, coinsStr(got), coinsStr(want))
			return
		}
		c.Count("subdistributor_runs_checked", 1)
	}
	for sub := range bySub {
		if _, ok := e.model.Inflow[sub]; !ok {
			c.Violate(pfx+"/events-without-inflow", "block %d: events for sub-distributor %s that had no inflow in the model", e.block, sub)
			return
		}
	}
}

func coinsClose(a, b model.Coins, tol *big.Rat) bool {
	denoms := map[string]bool{}
	for d := range a {
		denoms[d] = true
	}
	for d := range b {
		denoms[d] = true
	}
	for d := range denoms {
		av, bv := a[d], b[d]
		if av == nil {
			av = new(big.Rat)
		}
		if bv == nil {
			bv = new(big.Rat)
		}
		diff := new(big.Rat).Sub(av, bv)
		if diff.Abs(diff).Cmp(tol) > 0 {
			return false
		}
	}
	return true
}

func coinsStr(c model.Coins) string {
	var parts []string
	for _, d := range c.Denoms() {
		if c[d].Sign() != 0 {
			parts = append(parts, c[d].FloatString(18)+short(d, 8))
		}
	}
	return strings.Join(parts, ",")
}

func govAuthority() string { return appparams.GetAuthority() }

func get0(m map[string]model.Coins, k string) model.Coins {
	if m[k] == nil {
		return model.Coins{}
	}
	return m[k]
}
