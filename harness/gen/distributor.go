package gen

import (
	"fmt"
	"math/big"
	"math/rand"
	"strings"

	disttypes "github.com/chain4energy/c4e-chain/x/cfedistributor/types"
	sdk "github.com/cosmos/cosmos-sdk/types"
	authtypes "github.com/cosmos/cosmos-sdk/x/auth/types"
)

// Module accounts that may be used as sources / destinations of generated
// configurations (accounts whose balance belongs to another module's books are
// left out, see DESIGN.md §2).
var DistModuleAccounts = []string{"fee_collector", disttypes.ValidatorsRewardsCollector, disttypes.GreenEnergyBoosterCollector, disttypes.GovernanceBoosterCollector}

// DistOpts steers the generator.
type DistOpts struct {
	BaseAddrs     []string // usable base-account addresses
	VestingAddr   string   // base address whose coins are locked (source sweep fails) - "" to disable
	BlockedAddr   string   // base address that cannot receive funds - "" to disable
	AliasInternal bool     // allow internal ids that equal module names / addresses
	MainAliases   bool     // try MODULE_ACCOUNT:distributor_main_account / BASE_ACCOUNT:<main address> (valid only if validation lets them through)
	MaxSubs       int
	NiceShares    bool // every share a multiple of 5%: with inflows that are multiples of 20^5 all amounts stay whole numbers
}

func acc(t, id string) disttypes.Account { return disttypes.Account{Type: t, Id: id} }

func accKey(a disttypes.Account) string {
	if a.Type == disttypes.Main {
		return disttypes.Main
	}
	return a.Type + "-" + a.Id
}

// Share draws a share fraction in [0,1).
func Share(r *rand.Rand, budget *big.Int) sdk.Dec {
	// budget = remaining room (in 1e-18 units) so that the total stays < 1
	if budget.Sign() <= 0 {
		return sdk.ZeroDec()
	}
	var v *big.Int
	switch r.Intn(8) {
	case 0:
		v = big.NewInt(0)
	case 1:
		v = big.NewInt(1)
	case 2:
		v = new(big.Int).Sub(budget, big.NewInt(1)) // everything but 1e-18
	case 3:
		v = new(big.Int).Div(budget, big.NewInt(3))
	case 4:
		// "nice" percentages
		nice := []int64{50, 25, 10, 5, 35, 60, 33}
		v = new(big.Int).Mul(big.NewInt(nice[r.Intn(len(nice))]), new(big.Int).Exp(big.NewInt(10), big.NewInt(16), nil))
	default:
		v = new(big.Int).Rand(r, budget)
	}
	if v.Cmp(budget) >= 0 {
		v = new(big.Int).Sub(budget, big.NewInt(1))
	}
	if v.Sign() < 0 {
		v = big.NewInt(0)
	}
	return sdk.NewDecFromBigIntWithPrec(v, 18)
}

func shareOpt(r *rand.Rand, budget *big.Int, o DistOpts) sdk.Dec {
	if !o.NiceShares {
		return Share(r, budget)
	}
	unit := new(big.Int).Exp(big.NewInt(10), big.NewInt(16), nil) // 1%
	maxSteps := new(big.Int).Div(budget, new(big.Int).Mul(unit, big.NewInt(5))).Int64()
	if maxSteps <= 0 {
		return sdk.ZeroDec()
	}
	v := new(big.Int).Mul(unit, big.NewInt(5*(1+r.Int63n(maxSteps))))
	if r.Intn(3) > 0 && maxSteps > 4 {
		v = new(big.Int).Mul(unit, big.NewInt(5*(1+r.Int63n(4))))
	}
	return sdk.NewDecFromBigIntWithPrec(v, 18)
}

// SubDistributors generates a configuration accepted by Params.Validate().
// It returns nil if no valid configuration was found in a few attempts.
func SubDistributors(r *rand.Rand, o DistOpts) []disttypes.SubDistributor {
	for attempt := 0; attempt < 40; attempt++ {
		sds := tryDist(r, o)
		if err := (disttypes.Params{SubDistributors: sds}).Validate(); err == nil {
			return sds
		}
	}
	return nil
}

func tryDist(r *rand.Rand, o DistOpts) []disttypes.SubDistributor {
	maxSubs := o.MaxSubs
	if maxSubs <= 0 {
		maxSubs = 5
	}
	n := 1 + r.Intn(maxSubs)
	internalNames := []string{"i0", "i1", "i2", "pool"}
	if o.AliasInternal {
		internalNames = append(internalNames, "fee_collector", disttypes.GovernanceBoosterCollector, disttypes.DistributorMainAccount)
		if len(o.BaseAddrs) > 0 {
			internalNames = append(internalNames, o.BaseAddrs[0])
		}
	}
	pending := map[string]disttypes.Account{} // INTERNAL / MAIN whose last occurrence is a destination
	var pendingOrder []string
	setPending := func(a disttypes.Account, isDest bool) {
		if a.Type != disttypes.InternalAccount && a.Type != disttypes.Main {
			return
		}
		k := accKey(a)
		if isDest {
			if _, ok := pending[k]; !ok {
				pendingOrder = append(pendingOrder, k)
			}
			pending[k] = a
		} else {
			delete(pending, k)
		}
	}
	mainAliases := []disttypes.Account{acc(disttypes.ModuleAccount, disttypes.DistributorMainAccount), acc(disttypes.BaseAccount, ModuleAddr(disttypes.DistributorMainAccount)),
		acc(disttypes.BaseAccount, strings.ToUpper(ModuleAddr(disttypes.DistributorMainAccount)))}
	// the other valid spelling of a bech32 address (all upper case) names the same account
	// (one spelling per address and configuration: two spellings of one address would be
	// two identifiers of the distributor for a single bank account)
	spelled := map[string]string{}
	spell := func(a string) string {
		if v, ok := spelled[a]; ok {
			return v
		}
		spelled[a] = a
		if o.MainAliases && r.Intn(8) == 0 {
			spelled[a] = strings.ToUpper(a)
		}
		return spelled[a]
	}
	randSource := func() disttypes.Account {
		if o.MainAliases && r.Intn(12) == 0 {
			return mainAliases[r.Intn(3)]
		}
		switch x := r.Intn(10); {
		case x < 3:
			return acc(disttypes.Main, "")
		case x < 6:
			return acc(disttypes.ModuleAccount, DistModuleAccounts[r.Intn(len(DistModuleAccounts))])
		case x < 8 && len(o.BaseAddrs) > 0:
			if o.VestingAddr != "" && r.Intn(6) == 0 {
				return acc(disttypes.BaseAccount, o.VestingAddr)
			}
			return acc(disttypes.BaseAccount, spell(o.BaseAddrs[r.Intn(len(o.BaseAddrs))]))
		default:
			// prefer pending internal accounts
			for _, k := range pendingOrder {
				if a, ok := pending[k]; ok && a.Type == disttypes.InternalAccount && r.Intn(2) == 0 {
					return a
				}
			}
			return acc(disttypes.InternalAccount, internalNames[r.Intn(len(internalNames))])
		}
	}
	randDest := func() disttypes.Account {
		if o.MainAliases && r.Intn(16) == 0 {
			return mainAliases[r.Intn(3)]
		}
		switch x := r.Intn(12); {
		case x < 2:
			return acc(disttypes.Main, "")
		case x < 6:
			return acc(disttypes.ModuleAccount, DistModuleAccounts[r.Intn(len(DistModuleAccounts))])
		case x < 9 && len(o.BaseAddrs) > 0:
			if o.BlockedAddr != "" && r.Intn(8) == 0 {
				return acc(disttypes.BaseAccount, o.BlockedAddr)
			}
			return acc(disttypes.BaseAccount, spell(o.BaseAddrs[r.Intn(len(o.BaseAddrs))]))
		default:
			return acc(disttypes.InternalAccount, internalNames[r.Intn(len(internalNames))])
		}
	}
	shareSeq := 0
	build := func(name string, forcedSources []disttypes.Account) disttypes.SubDistributor {
		used := map[string]bool{}
		sd := disttypes.SubDistributor{Name: name}
		for _, s := range forcedSources {
			if !used[accKey(s)] {
				used[accKey(s)] = true
				cp := s
				sd.Sources = append(sd.Sources, &cp)
			}
		}
		ns := 1 + r.Intn(3)
		for len(sd.Sources) < ns {
			s := randSource()
			if used[accKey(s)] {
				if r.Intn(4) == 0 {
					break
				}
				continue
			}
			used[accKey(s)] = true
			cp := s
			sd.Sources = append(sd.Sources, &cp)
		}
		if len(sd.Sources) == 0 {
			m := acc(disttypes.Main, "")
			used[accKey(m)] = true
			sd.Sources = append(sd.Sources, &m)
		}
		r.Shuffle(len(sd.Sources), func(i, j int) { sd.Sources[i], sd.Sources[j] = sd.Sources[j], sd.Sources[i] })
		budget := new(big.Int).Exp(big.NewInt(10), big.NewInt(18), nil)
		budget.Sub(budget, big.NewInt(1))
		burn := sdk.ZeroDec()
		if r.Intn(2) == 0 {
			burn = shareOpt(r, budget, o)
			budget.Sub(budget, burn.BigInt())
		}
		nsh := r.Intn(5)
		for i := 0; i < nsh; i++ {
			d := randDest()
			if used[accKey(d)] {
				continue
			}
			used[accKey(d)] = true
			sh := shareOpt(r, budget, o)
			budget.Sub(budget, sh.BigInt())
			shareSeq++
			sd.Destinations.Shares = append(sd.Destinations.Shares, &disttypes.DestinationShare{Name: fmt.Sprintf("share%d", shareSeq), Share: sh, Destination: d})
		}
		var prim disttypes.Account
		for tries := 0; ; tries++ {
			prim = randDest()
			if !used[accKey(prim)] {
				break
			}
			if tries > 30 {
				prim = acc(disttypes.ModuleAccount, DistModuleAccounts[tries%len(DistModuleAccounts)])
				if !used[accKey(prim)] {
					break
				}
			}
			if tries > 60 {
				break
			}
		}
		used[accKey(prim)] = true
		sd.Destinations.PrimaryShare = prim
		sd.Destinations.BurnShare = burn
		// occurrence bookkeeping in validation order: sources, primary, shares
		for _, s := range sd.Sources {
			setPending(*s, false)
		}
		setPending(prim, true)
		for _, sh := range sd.Destinations.Shares {
			setPending(sh.Destination, true)
		}
		return sd
	}
	var sds []disttypes.SubDistributor
	mainSeen := false
	for i := 0; i < n; i++ {
		sd := build(fmt.Sprintf("sd%d", i), nil)
		for _, s := range sd.Sources {
			if s.Type == disttypes.Main {
				mainSeen = true
			}
		}
		sds = append(sds, sd)
	}
	// sinks for everything still pending (and make sure MAIN is a source at least once)
	for round := 0; round < 6; round++ {
		var forced []disttypes.Account
		for _, k := range pendingOrder {
			if a, ok := pending[k]; ok {
				forced = append(forced, a)
			}
		}
		if !mainSeen {
			forced = append(forced, acc(disttypes.Main, ""))
			mainSeen = true
		}
		if len(forced) == 0 {
			break
		}
		if len(forced) > 3 && r.Intn(2) == 0 {
			forced = forced[:1+r.Intn(3)]
		}
		sd := build(fmt.Sprintf("sink%d", round), forced)
		sds = append(sds, sd)
	}
	return sds
}

// ModuleAddr is the bech32 address of a module account.
func ModuleAddr(name string) string { return authtypes.NewModuleAddress(name).String() }
