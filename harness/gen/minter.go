// Package gen holds the seeded generators. All are pure functions of a PRNG.
package gen

import (
	"math/big"
	"math/rand"
	"sort"
	"time"

	"verifharness/model"

	minttypes "github.com/chain4energy/c4e-chain/x/cfeminter/types"
	codectypes "github.com/cosmos/cosmos-sdk/codec/types"
	sdk "github.com/cosmos/cosmos-sdk/types"
)

// Epoch is the synthetic genesis instant used by all generated chains.
var Epoch = time.Date(2030, 1, 1, 0, 0, 0, 0, time.UTC)

func pick(r *rand.Rand, n int) int { return r.Intn(n) }

// BigAmount draws a log-uniform amount in [0, 10^maxExp] with special values.
func BigAmount(r *rand.Rand, maxExp int) *big.Int {
	switch r.Intn(12) {
	case 0:
		return big.NewInt(0)
	case 1:
		return big.NewInt(1)
	case 2:
		primes := []int64{2, 3, 7, 97, 1009, 1000003, 999999937}
		return big.NewInt(primes[r.Intn(len(primes))])
	case 3:
		e := r.Intn(maxExp + 1)
		v := new(big.Int).Exp(big.NewInt(10), big.NewInt(int64(e)), nil)
		switch r.Intn(3) {
		case 0:
			v.Add(v, big.NewInt(1))
		case 1:
			if v.Cmp(big.NewInt(1)) > 0 {
				v.Sub(v, big.NewInt(1))
			}
		}
		return v
	}
	e := r.Intn(maxExp + 1)
	hi := new(big.Int).Exp(big.NewInt(10), big.NewInt(int64(e)), nil)
	v := new(big.Int).Rand(r, hi)
	return v.Add(v, big.NewInt(1))
}

// Multiplier draws an 18-decimal multiplier in [0,1].
func Multiplier(r *rand.Rand) sdk.Dec {
	switch r.Intn(8) {
	case 0:
		return sdk.ZeroDec()
	case 1:
		return sdk.OneDec()
	case 2:
		return sdk.MustNewDecFromStr("0.5")
	case 3:
		return sdk.MustNewDecFromStr("0.333333333333333333")
	case 4:
		return sdk.MustNewDecFromStr("0.999999999999999999")
	}
	v := new(big.Int).Rand(r, new(big.Int).Exp(big.NewInt(10), big.NewInt(18), nil))
	return sdk.NewDecFromBigIntWithPrec(v, 18)
}

// Dur draws a duration between 1s and about 30 years, with irregular values.
func Dur(r *rand.Rand) time.Duration {
	switch r.Intn(8) {
	case 0:
		return time.Second
	case 1:
		return time.Duration(1+r.Intn(120)) * time.Second
	case 2:
		return time.Duration(1+r.Intn(72)) * time.Hour
	case 3:
		return time.Duration(1+r.Intn(400)) * 24 * time.Hour
	case 4:
		return time.Duration(1+r.Intn(30)) * 365 * 24 * time.Hour
	case 5:
		// with sub-second parts
		return time.Duration(1+r.Intn(100000))*time.Second + time.Duration(r.Intn(1_000_000_000))
	}
	return time.Duration(1+r.Int63n(int64(3*365*24*time.Hour)/int64(time.Second))) * time.Second
}

func subMs(r *rand.Rand) time.Duration {
	switch r.Intn(4) {
	case 0:
		return 0
	case 1:
		return time.Duration(r.Intn(1000)) * time.Millisecond
	}
	return time.Duration(r.Intn(1_000_000_000))
}

// MinterConfig is a generated emission configuration plus its model.
type MinterConfig struct {
	Params   minttypes.Params    // Minters listed in a shuffled order (validation sorts by sequence id)
	Sorted   []*minttypes.Minter // the same minters in ascending sequence-id order
	FirstID  uint32              // sequence id of the first period (ids need not start at 1)
	Schedule model.Schedule
	Desc     []string
}

// MintDenom draws the mint denomination: mostly the chain's main denom, sometimes a
// denomination that has no supply at genesis.
func MintDenom(r *rand.Rand) string {
	if r.Intn(10) < 3 {
		return "umint"
	}
	return "uc4e"
}

func anyOf(v minttypes.MinterConfigI) *codectypes.Any {
	a, err := codectypes.NewAnyWithValue(v)
	if err != nil {
		panic(err)
	}
	return a
}

// Minters generates a valid emission configuration whose start lies around
// genesis. maxStepsPerPeriod caps the number of exponential steps inside one
// bounded period (the code loops once per elapsed step).
func Minters(r *rand.Rand, denom string, maxExp int) MinterConfig {
	n := 1 + r.Intn(6)
	start := Epoch
	switch r.Intn(5) {
	case 0:
		start = Epoch.Add(-Dur(r)) // started in the past
	case 1:
		start = Epoch.Add(time.Duration(r.Intn(3600)) * time.Second).Add(subMs(r))
		if r.Intn(2) == 0 {
			// minting starts days after genesis: blocks and parameter updates happen before it
			start = Epoch.Add(time.Duration(1+r.Intn(20*24)) * time.Hour).Add(subMs(r))
		}
	case 2:
		start = Epoch.Add(subMs(r))
	}
	mc := MinterConfig{Params: minttypes.Params{MintDenom: denom, StartTime: start}, Schedule: model.Schedule{Start: start}}
	cur := start
	for i := 0; i < n; i++ {
		last := i == n-1
		kind := r.Intn(3)
		if last && kind == model.Linear {
			kind = []int{model.NoMinting, model.ExponentialStep}[r.Intn(2)]
		}
		var end *time.Time
		plen := Dur(r)
		if !last {
			e := cur.Add(plen)
			if r.Intn(3) == 0 {
				e = e.Add(subMs(r))
			}
			end = &e
		}
		m := &minttypes.Minter{SequenceId: uint32(i + 1), EndTime: end}
		p := model.Period{Kind: kind, End: end}
		switch kind {
		case model.NoMinting:
			m.Config = anyOf(&minttypes.NoMinting{})
			mc.Desc = append(mc.Desc, "N")
		case model.Linear:
			amt := BigAmount(r, maxExp)
			m.Config = anyOf(&minttypes.LinearMinting{Amount: sdk.NewIntFromBigInt(amt)})
			p.Amount = amt
			mc.Desc = append(mc.Desc, "L")
		case model.ExponentialStep:
			amt := BigAmount(r, maxExp)
			if amt.Sign() == 0 {
				amt = big.NewInt(1)
			}
			mult := Multiplier(r)
			step := Dur(r)
			// keep the step count of a bounded period moderate
			if !last {
				for int64(plen)/int64(step) > 3000 {
					step *= 7
				}
				if r.Intn(3) == 0 && plen > 4*time.Second {
					// step that does not divide the period
					step = plen/time.Duration(2+r.Intn(5)) + time.Duration(r.Intn(1000))*time.Millisecond + time.Second
				}
			}
			if last && cur.Before(Epoch) {
				for int64(Epoch.Sub(cur))/int64(step) > 3000 {
					step *= 7
				}
			}
			if step < time.Second {
				step = time.Second
			}
			m.Config = anyOf(&minttypes.ExponentialStepMinting{Amount: sdk.NewIntFromBigInt(amt), StepDuration: step, AmountMultiplier: mult})
			p.Amount = amt
			p.Step = step
			p.Mult = new(big.Rat).SetFrac(mult.BigInt(), new(big.Int).Exp(big.NewInt(10), big.NewInt(18), nil))
			mc.Desc = append(mc.Desc, "E")
		}
		mc.Params.Minters = append(mc.Params.Minters, m)
		mc.Schedule.Periods = append(mc.Schedule.Periods, p)
		if end != nil {
			cur = *end
		}
	}
	// a genesis file may leave the start time out altogether (zero time, year 1). With a
	// no-minting first period that describes the same emission.
	if mc.Schedule.Periods[0].Kind == model.NoMinting && len(mc.Schedule.Periods) > 1 && r.Intn(4) == 0 {
		mc.Params.StartTime = time.Time{}
		mc.Schedule.Start = time.Time{}
	}
	// the rule for ids is "first > 0, then consecutive": one configuration in eight does not start at 1
	mc.FirstID = 1
	if r.Intn(8) == 0 {
		mc.FirstID = uint32(2 + r.Intn(5))
		for _, m := range mc.Params.Minters {
			m.SequenceId += mc.FirstID - 1
		}
	}
	mc.Sorted = append([]*minttypes.Minter{}, mc.Params.Minters...)
	if r.Intn(2) == 0 {
		// any listing order is valid: validation sorts by sequence id
		sh := append([]*minttypes.Minter{}, mc.Sorted...)
		r.Shuffle(len(sh), func(i, j int) { sh[i], sh[j] = sh[j], sh[i] })
		mc.Params.Minters = sh
		mc.Desc = append(mc.Desc[:len(mc.Desc):len(mc.Desc)])
	}
	return mc
}

// Horizon returns an instant after the last bounded period end plus some steps
// of the final period.
func (mc MinterConfig) Horizon(r *rand.Rand) time.Time {
	h := mc.Schedule.Start
	if h.Before(Epoch) {
		h = Epoch
	}
	for _, p := range mc.Schedule.Periods {
		if p.End != nil {
			h = *p.End
		}
	}
	if h.Before(Epoch) {
		h = Epoch
	}
	lastP := mc.Schedule.Periods[len(mc.Schedule.Periods)-1]
	ext := Dur(r)
	if lastP.Kind == model.ExponentialStep {
		st := lastP.Step
		if st > 6*365*24*time.Hour {
			ext = st + time.Duration(r.Int63n(int64(6*365*24*time.Hour)))
		} else {
			ext = st*time.Duration(1+r.Intn(6)) + time.Duration(r.Int63n(int64(st)))
		}
	}
	if ext <= 0 {
		ext = time.Hour
	}
	if ext > 40*365*24*time.Hour {
		ext = 40 * 365 * 24 * time.Hour
	}
	return h.Add(ext)
}

// Partition cuts (from, horizon] into strictly increasing block times that hug
// the given boundaries. mode: 0 boundary-hugging, 1 random, 2 single jump,
// 3 one block per boundary, 4 bursts.
func Partition(r *rand.Rand, from, horizon time.Time, boundaries []time.Time, mode int, maxBlocks int) []time.Time {
	set := map[int64]time.Time{}
	add := func(t time.Time) {
		if t.After(from) && !t.After(horizon) {
			set[t.UnixNano()] = t
		}
	}
	add(horizon)
	switch mode {
	case 2:
		// single jump: only the horizon
	case 3:
		for _, b := range boundaries {
			add(b)
		}
	case 1:
		k := 1 + r.Intn(maxBlocks)
		span := horizon.Sub(from)
		for i := 0; i < k; i++ {
			add(from.Add(randSpan(r, span)))
		}
	case 4:
		for _, b := range boundaries {
			if r.Intn(2) == 0 {
				for j := -2; j <= 2; j++ {
					add(b.Add(time.Duration(j)))
				}
			}
		}
	default:
		offs := []time.Duration{-time.Second, -time.Millisecond, -1, 0, 1, time.Millisecond, time.Second}
		for _, b := range boundaries {
			for _, o := range offs {
				if r.Intn(3) != 0 {
					add(b.Add(o))
				}
			}
		}
		span := horizon.Sub(from)
		for i := 0; i < 5; i++ {
			add(from.Add(randSpan(r, span)))
		}
	}
	var out []time.Time
	for _, t := range set {
		out = append(out, t)
	}
	sort.Slice(out, func(i, j int) bool { return out[i].Before(out[j]) })
	// thin out if too many, always keeping the horizon
	if len(out) > maxBlocks {
		keep := map[int]bool{len(out) - 1: true}
		for len(keep) < maxBlocks {
			keep[r.Intn(len(out))] = true
		}
		var th []time.Time
		for i, t := range out {
			if keep[i] {
				th = append(th, t)
			}
		}
		out = th
	}
	return out
}

// Describe renders the configuration compactly (for hashes, samples, replay).
func (mc MinterConfig) Describe() string {
	s := "start=" + mc.Schedule.Start.UTC().Format(time.RFC3339Nano)
	for i, p := range mc.Schedule.Periods {
		s += " | " + mc.Desc[i]
		if p.End != nil {
			s += " end=" + p.End.UTC().Format(time.RFC3339Nano)
		}
		if p.Amount != nil {
			s += " amt=" + p.Amount.String()
		}
		if p.Kind == model.ExponentialStep {
			s += " step=" + p.Step.String() + " mult=" + p.Mult.FloatString(18)
		}
	}
	return s
}

func randSpan(r *rand.Rand, span time.Duration) time.Duration {
	if span <= 0 {
		return 0
	}
	if int64(span) == int64(^uint64(0)>>1) {
		return time.Duration(r.Int63n(int64(span)))
	}
	return time.Duration(r.Int63n(int64(span) + 1))
}
