// verifcheck: parent (shards cases over worker processes, aggregates, applies
// known findings, writes evidence), worker (runs one shard) and replay.
package main

import (
	"bufio"
	"context"
	"crypto/sha256"
	"encoding/hex"
	"encoding/json"
	"fmt"
	"os"
	"os/exec"
	"path/filepath"
	"runtime"
	"sort"
	"strconv"
	"strings"
	"sync"
	"time"

	"verifharness/fw"
	"verifharness/mon"
)

const verifDir = "/verif"

type workerLine struct {
	Start  *int           `json:"start,omitempty"`
	Result *fw.CaseResult `json:"result,omitempty"`
}

type knownFile struct {
	Findings []struct {
		Property string `json:"property"`
		Key      string `json:"key"`
		What     string `json:"what"`
	} `json:"findings"`
	Fixed []struct {
		Property string `json:"property"`
		Commit   string `json:"commit"`
		What     string `json:"what"`
	} `json:"fixed"`
}

func main() {
	if len(os.Args) < 2 {
		usage()
	}
	switch os.Args[1] {
	case "run":
		if len(os.Args) < 4 {
			usage()
		}
		os.Exit(parent(os.Args[2], os.Args[3]))
	case "worker":
		worker(os.Args[2:])
	case "replay":
		if len(os.Args) < 3 {
			usage()
		}
		os.Exit(replay(os.Args[2]))
	case "case":
		// verifcheck case <prop> <tier> <seed> <index>
		seed, _ := strconv.ParseInt(os.Args[4], 10, 64)
		idx, _ := strconv.Atoi(os.Args[5])
		m := fw.Get(os.Args[2])
		r := fw.RunCase(m, os.Args[3], seed, idx)
		fmt.Println(fw.JSON(r))
	case "racestress":
		seed, _ := strconv.ParseInt(os.Args[2], 10, 64)
		blocks, _ := strconv.Atoi(os.Args[3])
		b, q := mon.RaceStress(seed, blocks)
		fmt.Printf("racestress blocks=%d queries=%d\n", b, q)
	case "replaylog":
		b, err := os.ReadFile(os.Args[2])
		if err != nil {
			fmt.Fprintln(os.Stderr, err)
			os.Exit(2)
		}
		var rf mon.ReplayFile
		if err := json.Unmarshal(b, &rf); err != nil {
			fmt.Fprintln(os.Stderr, err)
			os.Exit(2)
		}
		d, _ := mon.ReplayLog(rf)
		fmt.Println(fw.JSON(d))
	case "list":
		fmt.Println(strings.Join(fw.IDs(), "\n"))
	default:
		usage()
	}
}

func usage() {
	fmt.Fprintln(os.Stderr, "usage: verifcheck run <property> <quick|thorough> | replay <file> | case <prop> <tier> <seed> <index> | list")
	os.Exit(2)
}

func seedFromEnv() int64 {
	if s := os.Getenv("VERIF_SEED"); s != "" {
		if v, err := strconv.ParseInt(s, 10, 64); err == nil {
			return v
		}
	}
	return 1
}

func worker(args []string) {
	// worker <prop> <tier> <seed> <shard> <nshards> <ncases> <outfile>
	prop, tier := args[0], args[1]
	seed, _ := strconv.ParseInt(args[2], 10, 64)
	shard, _ := strconv.Atoi(args[3])
	nshards, _ := strconv.Atoi(args[4])
	ncases, _ := strconv.Atoi(args[5])
	out, err := os.OpenFile(args[6], os.O_CREATE|os.O_WRONLY|os.O_TRUNC, 0o644)
	if err != nil {
		fmt.Fprintln(os.Stderr, err)
		os.Exit(3)
	}
	defer out.Close()
	m := fw.Get(prop)
	if m == nil {
		fmt.Fprintln(os.Stderr, "unknown property", prop)
		os.Exit(3)
	}
	w := bufio.NewWriter(out)
	for i := shard; i < ncases; i += nshards {
		idx := i
		b, _ := json.Marshal(workerLine{Start: &idx})
		w.Write(b)
		w.WriteByte('\n')
		w.Flush()
		r := fw.RunCase(m, tier, seed, i)
		b, err := json.Marshal(workerLine{Result: &r})
		if err != nil {
			r.Sample = nil
			for j := range r.Violations {
				r.Violations[j].Detail = fmt.Sprint(r.Violations[j].Detail)
			}
			b, _ = json.Marshal(workerLine{Result: &r})
		}
		w.Write(b)
		w.WriteByte('\n')
		w.Flush()
	}
}

func parent(prop, tier string) int {
	start := time.Now()
	m := fw.Get(prop)
	if m == nil {
		fmt.Fprintln(os.Stderr, "unknown property", prop)
		return 2
	}
	seed := seedFromEnv()
	ncases := m.Cases(tier)
	nshards := runtime.NumCPU()
	if s := os.Getenv("VERIF_WORKERS"); s != "" {
		if v, err := strconv.Atoi(s); err == nil && v > 0 {
			nshards = v
		}
	}
	if nshards > ncases {
		nshards = ncases
	}
	if nshards < 1 {
		nshards = 1
	}
	self, _ := os.Executable()
	tmp, err := os.MkdirTemp("", "verif-"+prop+"-")
	if err != nil {
		fmt.Fprintln(os.Stderr, err)
		return 2
	}
	defer os.RemoveAll(tmp)

	budget := 30 * time.Minute
	if tier == "thorough" {
		budget = 5 * time.Hour
	}
	ctx, cancel := context.WithTimeout(context.Background(), budget)
	defer cancel()

	type shardOut struct {
		file   string
		err    error
		stderr string
	}
	outs := make([]shardOut, nshards)
	var wg sync.WaitGroup
	for s := 0; s < nshards; s++ {
		wg.Add(1)
		go func(s int) {
			defer wg.Done()
			f := filepath.Join(tmp, fmt.Sprintf("shard-%d.jsonl", s))
			errf := filepath.Join(tmp, fmt.Sprintf("shard-%d.stderr", s))
			ef, _ := os.Create(errf)
			cmd := exec.CommandContext(ctx, self, "worker", prop, tier, strconv.FormatInt(seed, 10), strconv.Itoa(s), strconv.Itoa(nshards), strconv.Itoa(ncases), f)
			cmd.Stderr = ef
			cmd.Stdout = ef
			err := cmd.Run()
			ef.Close()
			tail := ""
			if err != nil {
				if b, e := os.ReadFile(errf); e == nil {
					if len(b) > 2500 {
						b = b[:2500]
					}
					tail = string(b)
				}
			}
			outs[s] = shardOut{file: f, err: err, stderr: tail}
		}(s)
	}
	wg.Wait()
	timedOut := ctx.Err() != nil

	agg := fw.NewAggregate()
	var crashes []fw.AggViolation
	for s := 0; s < nshards; s++ {
		f, err := os.Open(outs[s].file)
		if err != nil {
			agg.Inconclusive = append(agg.Inconclusive, fmt.Sprintf("shard %d produced no output: %v", s, err))
			continue
		}
		sc := bufio.NewScanner(f)
		sc.Buffer(make([]byte, 1<<20), 1<<28)
		last := -1
		done := map[int]bool{}
		for sc.Scan() {
			var l workerLine
			if err := json.Unmarshal(sc.Bytes(), &l); err != nil {
				continue
			}
			if l.Start != nil {
				last = *l.Start
			}
			if l.Result != nil {
				agg.Add(*l.Result)
				done[l.Result.Index] = true
			}
		}
		f.Close()
		if outs[s].err != nil {
			if timedOut {
				agg.Inconclusive = append(agg.Inconclusive, fmt.Sprintf("shard %d: watchdog fired (last case %d)", s, last))
			} else if last >= 0 && !done[last] {
				if m.CrashIsViolation {
					crashes = append(crashes, fw.AggViolation{Index: last, Violation: fw.Violation{
						Key: prop + "/process-crash", Msg: "worker process died inside the case (fatal error / unrecovered panic)", Detail: outs[s].stderr}})
				} else {
					agg.Inconclusive = append(agg.Inconclusive, fmt.Sprintf("shard %d: worker died in case %d: %s", s, last, firstLines(outs[s].stderr, 8)))
				}
			} else {
				agg.Inconclusive = append(agg.Inconclusive, fmt.Sprintf("shard %d: worker failed: %v %s", s, outs[s].err, firstLines(outs[s].stderr, 8)))
			}
		}
	}
	agg.Violations = append(agg.Violations, crashes...)
	if m.Extra != nil {
		m.Extra(tier, seed, agg)
	}

	// known findings
	known := loadKnown()
	var unknown []fw.AggViolation
	knownHits := map[string]int{}
	knownWhat := map[string]string{}
	for _, v := range agg.Violations {
		matched := false
		for _, k := range known.Findings {
			if k.Property == prop && k.Key == v.Key {
				knownHits[k.Key]++
				knownWhat[k.Key] = k.What
				matched = true
				break
			}
		}
		if !matched {
			unknown = append(unknown, v)
		}
	}
	var kkeys []string
	for k := range knownHits {
		kkeys = append(kkeys, k)
	}
	sort.Strings(kkeys)
	for _, k := range kkeys {
		fmt.Printf("KNOWN-FINDING: property=%s %s [key=%s, observed %d times]\n", prop, knownWhat[k], k, knownHits[k])
	}

	exit := 0
	// write replay files for unknown violations (first 5 distinct keys)
	seenKey := map[string]bool{}
	os.MkdirAll(filepath.Join(verifDir, "replays"), 0o755)
	for _, v := range unknown {
		if seenKey[v.Key] {
			continue
		}
		seenKey[v.Key] = true
		if len(seenKey) > 8 {
			break
		}
		rp := map[string]interface{}{"property": prop, "tier": tier, "seed": seed, "index": v.Index, "key": v.Key, "msg": v.Msg, "detail": v.Detail}
		b, _ := json.MarshalIndent(rp, "", " ")
		h := sha256.Sum256([]byte(fmt.Sprintf("%s/%d/%d/%s", tier, seed, v.Index, v.Key)))
		path := filepath.Join(verifDir, "replays", fmt.Sprintf("%s-%s.json", prop, hex.EncodeToString(h[:6])))
		os.WriteFile(path, b, 0o644)
		fmt.Printf("VIOLATION property=%s replay=%s\n", prop, path)
		fmt.Printf("  key=%s case=%d: %s\n", v.Key, v.Index, v.Msg)
		exit = 1
	}

	minNT := 2
	if m.MinNontrivial != nil {
		if v := m.MinNontrivial(tier); v > minNT {
			minNT = v
		}
	}
	nt := len(agg.Nontrivial)
	if exit == 0 {
		if len(agg.Inconclusive) > 0 {
			fmt.Printf("INCONCLUSIVE property=%s: %s\n", prop, strings.Join(agg.Inconclusive, "; "))
			exit = 2
		} else if nt < minNT {
			fmt.Printf("INCONCLUSIVE property=%s: only %d distinct non-trivial cases (floor %d)\n", prop, nt, minNT)
			exit = 2
		}
	}

	// evidence
	cov := map[string]interface{}{
		"evaluations":         agg.Evaluations,
		"distinct_nontrivial": nt,
		"rule":                m.Rule,
		"samples":             agg.Samples,
		"counters":            agg.Counters,
		"workers":             nshards,
		"known_finding_hits":  knownHits,
	}
	if len(agg.Samples) == 0 {
		cov["samples"] = []interface{}{fmt.Sprintf("no sample recorded (cases=%d)", ncases)}
	}
	if m.Exhaustive {
		cov["exhaustive"] = true
	}
	if len(agg.Inconclusive) > 0 {
		cov["inconclusive"] = agg.Inconclusive
	}
	assumptions := append([]string{}, m.Assumptions...)
	assumptions = append(assumptions, "cosmos-sdk (baseapp, bank, auth, staking), tendermint types and the Go runtime are trusted; the oracle code is independent of the repository's arithmetic",
		"verdict is about the executions explored by this seed and tier only")
	ev := map[string]interface{}{
		"property_id": prop, "tier": tier, "seed": seed, "level": m.Level, "coverage": cov,
		"assumptions": assumptions, "wall_s": time.Since(start).Seconds(), "violations": len(unknown),
	}
	b, _ := json.MarshalIndent(ev, "", " ")
	evDir := filepath.Join(verifDir, "evidence")
	if v := os.Getenv("VERIF_EVIDENCE_DIR"); v != "" {
		evDir = v // evaluation of seeded changes must not overwrite the evidence of the real tree
	}
	os.MkdirAll(evDir, 0o755)
	if err := os.WriteFile(filepath.Join(evDir, prop+".json"), b, 0o644); err != nil {
		fmt.Fprintln(os.Stderr, "evidence write failed:", err)
		if exit == 0 {
			exit = 2
		}
	}
	verdict := map[int]string{0: "HELD", 1: "VIOLATED", 2: "INCONCLUSIVE"}[exit]
	fmt.Printf("%s property=%s tier=%s seed=%d cases=%d nontrivial=%d known=%d wall=%.1fs counters=%s\n",
		verdict, prop, tier, seed, agg.Evaluations, nt, len(agg.Violations)-len(unknown), time.Since(start).Seconds(), fw.JSON(agg.Counters))
	return exit
}

func firstLines(s string, n int) string {
	lines := strings.Split(s, "\n")
	if len(lines) > n {
		lines = lines[:n]
	}
	return strings.Join(lines, " | ")
}

func loadKnown() knownFile {
	var k knownFile
	b, err := os.ReadFile(filepath.Join(verifDir, "known_findings.json"))
	if err != nil {
		return k
	}
	json.Unmarshal(b, &k)
	return k
}

func replay(path string) int {
	b, err := os.ReadFile(path)
	if err != nil {
		fmt.Fprintln(os.Stderr, err)
		return 2
	}
	var rp struct {
		Property string `json:"property"`
		Tier     string `json:"tier"`
		Seed     int64  `json:"seed"`
		Index    int    `json:"index"`
	}
	if err := json.Unmarshal(b, &rp); err != nil {
		fmt.Fprintln(os.Stderr, err)
		return 2
	}
	m := fw.Get(rp.Property)
	if m == nil {
		fmt.Fprintln(os.Stderr, "unknown property", rp.Property)
		return 2
	}
	r := fw.RunCase(m, rp.Tier, rp.Seed, rp.Index)
	out, _ := json.MarshalIndent(r, "", " ")
	fmt.Println(string(out))
	if len(r.Violations) > 0 {
		fmt.Printf("VIOLATION property=%s replay=%s\n", rp.Property, path)
		return 1
	}
	return 0
}
