package model

import (
	"math/big"
	"sort"
)

// Account kinds of the distributor model.
const (
	KMain     = "MAIN"
	KModule   = "MODULE_ACCOUNT"
	KBase     = "BASE_ACCOUNT"
	KInternal = "INTERNAL_ACCOUNT"
	BurnKey   = "BURN"
)

// DAccount identifies a source or destination by (type, id).
type DAccount struct {
	Type string
	ID   string
}

func (a DAccount) Key() string {
	if a.Type == KMain {
		return KMain
	}
	return a.Type + "-" + a.ID
}

type DShare struct {
	Name  string
	Dest  DAccount
	Share *big.Rat
}

type DSub struct {
	Name    string
	Sources []DAccount
	Shares  []DShare
	Burn    *big.Rat
	Primary DAccount
}

// Coins is denom -> exact amount.
type Coins map[string]*big.Rat

func (c Coins) Add(o Coins) {
	for d, v := range o {
		if c[d] == nil {
			c[d] = new(big.Rat)
		}
		c[d].Add(c[d], v)
	}
}

func (c Coins) Clone() Coins {
	out := Coins{}
	for d, v := range c {
		out[d] = new(big.Rat).Set(v)
	}
	return out
}

func (c Coins) IsZero() bool {
	for _, v := range c {
		if v.Sign() != 0 {
			return false
		}
	}
	return true
}

func (c Coins) Scaled(f *big.Rat) Coins {
	out := Coins{}
	for d, v := range c {
		out[d] = new(big.Rat).Mul(v, f)
	}
	return out
}

func (c Coins) Sub(o Coins) {
	for d, v := range o {
		if c[d] == nil {
			c[d] = new(big.Rat)
		}
		c[d].Sub(c[d], v)
	}
}

func (c Coins) Denoms() []string {
	var out []string
	for d := range c {
		out = append(out, d)
	}
	sort.Strings(out)
	return out
}

// Distributor is the exact model of the documented flow. It is a closed system:
// its only inputs are the external inflows (External) and the configuration.
type Distributor struct {
	Owed   map[string]Coins // destination key -> amount still owed (held on the main account)
	Paid   map[string]Coins // destination key -> cumulative integer payouts
	Bal    map[string]Coins // address -> spendable coins the model believes the account holds
	Unowed Coins            // coins on the main account that are owed to nobody
	Cum    map[string]Coins // destination key -> cumulative amount assigned (incl. internal accounts and burn)
	// per block outputs
	Inflow   map[string]Coins            // sub-distributor name -> inflow of this block
	MainKept map[string]Coins            // sub-distributor name -> part left on MAIN this block
	Assigned map[string]map[string]Coins // sub name -> dest key -> amount assigned this block (non-MAIN, incl. burn)
}

func NewDistributor() *Distributor {
	return &Distributor{Owed: map[string]Coins{}, Paid: map[string]Coins{}, Bal: map[string]Coins{}, Unowed: Coins{}, Cum: map[string]Coins{}}
}

func (m *Distributor) owed(k string) Coins {
	if m.Owed[k] == nil {
		m.Owed[k] = Coins{}
	}
	return m.Owed[k]
}

func (m *Distributor) paid(k string) Coins {
	if m.Paid[k] == nil {
		m.Paid[k] = Coins{}
	}
	return m.Paid[k]
}

func (m *Distributor) bal(a string) Coins {
	if m.Bal[a] == nil {
		m.Bal[a] = Coins{}
	}
	return m.Bal[a]
}

func (m *Distributor) cum(k string) Coins {
	if m.Cum[k] == nil {
		m.Cum[k] = Coins{}
	}
	return m.Cum[k]
}

// External records coins that arrive from outside the distributor: on the main
// account (main=true) or on the account with the given address.
func (m *Distributor) External(main bool, addr string, c Coins) {
	if main {
		m.Unowed.Add(c)
		return
	}
	m.bal(addr).Add(c)
}

// SumOwed is the sum of everything owed.
func (m *Distributor) SumOwed() Coins {
	t := Coins{}
	for _, c := range m.Owed {
		t.Add(c)
	}
	return t
}

// Block runs one block. addrOf maps a module/base account to its address.
// payoutFails tells whether the end-of-block payout to a key fails in this
// block; sweepFails whether sweeping a source account fails.
func (m *Distributor) Block(subs []DSub, addrOf func(a DAccount) string, payoutFails func(key string) bool, sweepFails func(key string, attempt int) bool) {
	m.Inflow = map[string]Coins{}
	m.MainKept = map[string]Coins{}
	m.Assigned = map[string]map[string]Coins{}
	attempts := map[string]int{}
	failed := map[string]bool{}
	for _, sd := range subs {
		inflow := Coins{}
		// MAIN first: its inflow is what is on the main account and owed to nobody
		for _, s := range sd.Sources {
			if s.Type == KMain {
				inflow.Add(m.Unowed)
				m.Unowed = Coins{}
			}
		}
		for _, s := range sd.Sources {
			switch s.Type {
			case KMain:
			case KInternal:
				inflow.Add(m.owed(s.Key()))
				m.Owed[s.Key()] = Coins{}
			default:
				a := addrOf(s)
				if !m.bal(a).IsZero() && !failed[s.Key()] {
					// the real code only calls the bank when there is something to sweep; a source
					// whose sweep failed is left alone for the rest of the block
					n := attempts[s.Key()]
					attempts[s.Key()] = n + 1
					if sweepFails != nil && sweepFails(s.Key(), n) {
						failed[s.Key()] = true
					} else {
						inflow.Add(m.bal(a))
						m.Bal[a] = Coins{}
					}
				}
				inflow.Add(m.owed(s.Key()))
				m.Owed[s.Key()] = Coins{}
			}
		}
		if inflow.IsZero() {
			continue
		}
		m.Inflow[sd.Name] = inflow.Clone()
		m.MainKept[sd.Name] = Coins{}
		m.Assigned[sd.Name] = map[string]Coins{}
		rest := inflow.Clone()
		give := func(dest DAccount, amt Coins) {
			if dest.Type == KMain {
				m.Unowed.Add(amt)
				m.MainKept[sd.Name].Add(amt)
				return
			}
			m.owed(dest.Key()).Add(amt)
			m.cum(dest.Key()).Add(amt)
			if m.Assigned[sd.Name][dest.Key()] == nil {
				m.Assigned[sd.Name][dest.Key()] = Coins{}
			}
			m.Assigned[sd.Name][dest.Key()].Add(amt)
		}
		for _, sh := range sd.Shares {
			amt := inflow.Scaled(sh.Share)
			rest.Sub(amt)
			give(sh.Dest, amt)
		}
		if sd.Burn != nil && sd.Burn.Sign() > 0 {
			amt := inflow.Scaled(sd.Burn)
			rest.Sub(amt)
			m.owed(BurnKey).Add(amt)
			m.cum(BurnKey).Add(amt)
			if m.Assigned[sd.Name][BurnKey] == nil {
				m.Assigned[sd.Name][BurnKey] = Coins{}
			}
			m.Assigned[sd.Name][BurnKey].Add(amt)
		}
		give(sd.Primary, rest)
	}
	// end-of-block payout: integer part of every denomination, fraction carried
	for k, c := range m.Owed {
		if len(k) >= len(KInternal) && k[:len(KInternal)] == KInternal {
			continue
		}
		if payoutFails != nil && payoutFails(k) {
			continue
		}
		any := false
		for _, v := range c {
			if v.Cmp(big.NewRat(1, 1)) >= 0 {
				any = true
			}
		}
		if !any {
			continue
		}
		for d, v := range c {
			fl := Floor(v)
			if fl.Sign() > 0 {
				f := new(big.Rat).SetInt(fl)
				m.paid(k).Add(Coins{d: f})
				v.Sub(v, f)
				if k != BurnKey {
					m.bal(addrOfKey(k, addrOf)).Add(Coins{d: f})
				}
			}
		}
	}
}

func addrOfKey(k string, addrOf func(a DAccount) string) string {
	for _, t := range []string{KModule, KBase} {
		if len(k) > len(t)+1 && k[:len(t)+1] == t+"-" {
			return addrOf(DAccount{Type: t, ID: k[len(t)+1:]})
		}
	}
	return k
}
