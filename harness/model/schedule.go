// Package model holds the reference models. They use math/big only and never
// call into the repository's arithmetic.
package model

import (
	"math/big"
	"time"
)

const (
	NoMinting = iota
	Linear
	ExponentialStep
)

// Period is one emission period of the documented schedule.
type Period struct {
	Kind   int
	End    *time.Time // nil for the last period
	Amount *big.Int
	Step   time.Duration
	Mult   *big.Rat
}

// Schedule is a start time plus consecutive periods.
type Schedule struct {
	Start   time.Time
	Periods []Period
}

func ratInt(i int64) *big.Rat { return new(big.Rat).SetInt64(i) }

// PeriodEmission is the exact emission of period p (which starts at s) up to T.
func PeriodEmission(p Period, s, T time.Time) *big.Rat {
	zero := new(big.Rat)
	switch p.Kind {
	case NoMinting:
		return zero
	case Linear:
		amt := new(big.Rat).SetInt(p.Amount)
		e := *p.End
		if T.After(e) {
			return amt
		}
		if T.Before(s) {
			return zero
		}
		passed := T.UnixMilli() - s.UnixMilli()
		period := e.UnixMilli() - s.UnixMilli()
		if period <= 0 {
			return amt
		}
		if passed > period {
			passed = period
		}
		r := new(big.Rat).Mul(amt, new(big.Rat).SetFrac(big.NewInt(passed), big.NewInt(period)))
		return r
	case ExponentialStep:
		now := T
		if p.End != nil && T.After(*p.End) {
			now = *p.End
		}
		if now.Before(s) {
			return zero
		}
		// elapsed nanoseconds as a big integer: a time.Duration saturates after ~292 years
		passedBig := ElapsedNs(s, now)
		stepBig := big.NewInt(int64(p.Step))
		nBig, inStepBig := new(big.Int).QuoRem(passedBig, stepBig, new(big.Int))
		if !nBig.IsInt64() || nBig.Int64() > 50_000_000 {
			panic("model: step count out of the explored range")
		}
		n := nBig.Int64()
		step := int64(p.Step)
		// 1024-bit floats: relative error 2^-1023 per operation, i.e. far below
		// the 1e-6 ambiguity band used for configurations with exponential
		// periods; exact rationals would grow 18 digits per step.
		const prec = 1024
		mult := new(big.Float).SetPrec(prec).SetRat(p.Mult)
		sum := new(big.Float).SetPrec(prec)
		cur := new(big.Float).SetPrec(prec).SetInt(p.Amount)
		for i := int64(0); i < n; i++ {
			if i > 0 {
				cur.Mul(cur, mult)
			}
			sum.Add(sum, cur)
		}
		if n > 0 {
			cur.Mul(cur, mult)
		}
		frac := new(big.Float).SetPrec(prec).SetRat(new(big.Rat).SetFrac(inStepBig, big.NewInt(step)))
		sum.Add(sum, new(big.Float).SetPrec(prec).Mul(cur, frac))
		out, _ := sum.Rat(nil)
		return out
	}
	return zero
}

// Cum is the exact cumulative emission of the whole schedule at T (0 before Start).
func (s Schedule) Cum(T time.Time) *big.Rat {
	total := new(big.Rat)
	if T.Before(s.Start) {
		return total
	}
	start := s.Start
	for _, p := range s.Periods {
		if T.Before(start) {
			break
		}
		total.Add(total, PeriodEmission(p, start, T))
		if p.End == nil {
			break
		}
		start = *p.End
	}
	return total
}

// Floor returns floor(r) for r >= 0.
func Floor(r *big.Rat) *big.Int {
	return new(big.Int).Quo(r.Num(), r.Denom())
}

// Frac returns r - floor(r).
func Frac(r *big.Rat) *big.Rat {
	return new(big.Rat).Sub(r, new(big.Rat).SetInt(Floor(r)))
}

// NearInteger reports whether r is within eps of an integer.
func NearInteger(r *big.Rat, eps *big.Rat) bool {
	f := Frac(r)
	if f.Cmp(eps) < 0 {
		return true
	}
	one := ratInt(1)
	return new(big.Rat).Sub(one, f).Cmp(eps) < 0
}

// Boundaries lists period ends and (up to max) step ends of the schedule.
func (s Schedule) Boundaries(horizon time.Time, maxSteps int) []time.Time {
	var out []time.Time
	out = append(out, s.Start)
	start := s.Start
	for _, p := range s.Periods {
		end := horizon
		if p.End != nil {
			end = *p.End
			out = append(out, end)
		}
		if p.Kind == ExponentialStep && p.Step > 0 {
			t := start
			for i := 0; i < maxSteps; i++ {
				t = t.Add(p.Step)
				if !t.Before(end) {
					break
				}
				out = append(out, t)
			}
		}
		if p.End == nil {
			break
		}
		start = *p.End
	}
	return out
}

// ElapsedNs is b - a in nanoseconds, exact for any two instants.
func ElapsedNs(a, b time.Time) *big.Int {
	d := new(big.Int).Mul(big.NewInt(b.Unix()-a.Unix()), big.NewInt(1_000_000_000))
	return d.Add(d, big.NewInt(int64(b.Nanosecond()-a.Nanosecond())))
}
