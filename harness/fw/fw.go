// Package fw is the case runner: seeded case lists, worker isolation,
// three-valued verdicts, known findings, evidence.
package fw

import (
	"crypto/sha256"
	"encoding/hex"
	"encoding/json"
	"fmt"
	"math/rand"
	"sort"
)

// Violation is one observed refutation. Key is a stable identifier computed
// from the witness (used for known-findings matching); Msg is human readable.
type Violation struct {
	Key    string      `json:"key"`
	Msg    string      `json:"msg"`
	Detail interface{} `json:"detail,omitempty"`
}

// CaseResult is what one executed case reports.
type CaseResult struct {
	Index        int              `json:"index"`
	Hash         string           `json:"hash"`
	Nontrivial   bool             `json:"nontrivial"`
	Violations   []Violation      `json:"violations,omitempty"`
	Counters     map[string]int64 `json:"counters,omitempty"`
	Sample       interface{}      `json:"sample,omitempty"`
	Inconclusive string           `json:"inconclusive,omitempty"`
}

// Case is the context handed to a monitor for one case.
type Case struct {
	Property string
	Tier     string
	Seed     int64
	Index    int
	R        *rand.Rand
	res      *CaseResult
	hasher   []string
}

// Violate records a violation.
func (c *Case) Violate(key, format string, args ...interface{}) {
	c.res.Violations = append(c.res.Violations, Violation{Key: key, Msg: fmt.Sprintf(format, args...)})
}

// ViolateD records a violation with a detail object.
func (c *Case) ViolateD(key string, detail interface{}, format string, args ...interface{}) {
	c.res.Violations = append(c.res.Violations, Violation{Key: key, Msg: fmt.Sprintf(format, args...), Detail: detail})
}

// KeepViolations drops every recorded violation whose key does not start with one of the prefixes.
func (c *Case) KeepViolations(prefixes ...string) {
	var out []Violation
	for _, v := range c.res.Violations {
		for _, p := range prefixes {
			if len(v.Key) >= len(p) && v.Key[:len(p)] == p {
				out = append(out, v)
				break
			}
		}
	}
	c.res.Violations = out
}

// MapViolationKeys rewrites the keys of recorded violations ("" drops the violation).
func (c *Case) MapViolationKeys(f func(string) string) {
	var out []Violation
	for _, v := range c.res.Violations {
		if k := f(v.Key); k != "" {
			v.Key = k
			out = append(out, v)
		}
	}
	c.res.Violations = out
}

// NViolPrefix counts recorded violations with a key prefix.
func (c *Case) NViolPrefix(prefix string) int {
	n := 0
	for _, v := range c.res.Violations {
		if len(v.Key) >= len(prefix) && v.Key[:len(prefix)] == prefix {
			n++
		}
	}
	return n
}

// NViol is the number of violations recorded so far.
func (c *Case) NViol() int { return len(c.res.Violations) }

// Count adds to a named counter.
func (c *Case) Count(name string, n int64) {
	if c.res.Counters == nil {
		c.res.Counters = map[string]int64{}
	}
	c.res.Counters[name] += n
}

// Max keeps the maximum of a named counter.
func (c *Case) Max(name string, n int64) {
	if c.res.Counters == nil {
		c.res.Counters = map[string]int64{}
	}
	if n > c.res.Counters[name] {
		c.res.Counters[name] = n
	}
}

func (c *Case) Counter(name string) int64 { return c.res.Counters[name] }

// Nontrivial marks the case as non-trivial by the monitor's rule.
func (c *Case) Nontrivial(b bool) { c.res.Nontrivial = b }

// Describe adds content to the case's distinctness hash.
func (c *Case) Describe(parts ...interface{}) {
	for _, p := range parts {
		c.hasher = append(c.hasher, fmt.Sprint(p))
	}
}

// Sample sets the sample object written to evidence for this case.
func (c *Case) Sample(v interface{}) { c.res.Sample = v }

// Inconclusive marks the case as undecided (harness problem, not a verdict).
func (c *Case) Inconclusive(format string, args ...interface{}) {
	c.res.Inconclusive = fmt.Sprintf(format, args...)
}

// Monitor describes one property check.
type Monitor struct {
	ID          string
	Level       string // exploration | fault_enumeration
	Rule        string
	Assumptions []string
	// Cases returns the number of cases for a tier.
	Cases func(tier string) int
	// MinNontrivial is the floor below which a run is inconclusive.
	MinNontrivial func(tier string) int
	// Run executes one case.
	Run func(c *Case)
	// CrashIsViolation: a worker that dies inside a case is a violation (panic
	// properties) rather than inconclusive.
	CrashIsViolation bool
	Exhaustive       bool
	// Extra is called by the parent after all shards finished (sanitizer
	// passes etc.). It may add violations / counters.
	Extra func(tier string, seed int64, agg *Aggregate)
}

var registry = map[string]*Monitor{}

// Register adds a monitor.
func Register(m *Monitor) { registry[m.ID] = m }

// Get returns a registered monitor.
func Get(id string) *Monitor { return registry[id] }

// IDs lists registered monitors.
func IDs() []string {
	var out []string
	for k := range registry {
		out = append(out, k)
	}
	sort.Strings(out)
	return out
}

// CaseSeed derives the PRNG seed of a case: splitmix64 over (seed, property, index).
func CaseSeed(seed int64, property string, index int) int64 {
	h := sha256.Sum256([]byte(fmt.Sprintf("%d/%s/%d", seed, property, index)))
	var x uint64
	for i := 0; i < 8; i++ {
		x = x<<8 | uint64(h[i])
	}
	x += 0x9e3779b97f4a7c15
	x = (x ^ (x >> 30)) * 0xbf58476d1ce4e5b9
	x = (x ^ (x >> 27)) * 0x94d049bb133111eb
	x ^= x >> 31
	return int64(x >> 1)
}

// RunCase executes one case of a monitor in this process (no isolation).
// BeforeCase, when set, prepares process-wide generator state for a case (it must be a pure
// function of the case's identity).
var BeforeCase func(c *Case)

func RunCase(m *Monitor, tier string, seed int64, index int) CaseResult {
	res := CaseResult{Index: index}
	c := &Case{Property: m.ID, Tier: tier, Seed: seed, Index: index, R: rand.New(rand.NewSource(CaseSeed(seed, m.ID, index))), res: &res}
	if BeforeCase != nil {
		BeforeCase(c)
	}
	m.Run(c)
	h := sha256.New()
	for _, p := range c.hasher {
		h.Write([]byte(p))
		h.Write([]byte{0})
	}
	if len(c.hasher) == 0 {
		h.Write([]byte(fmt.Sprintf("case-%d-%d", seed, index)))
	}
	res.Hash = hex.EncodeToString(h.Sum(nil))[:16]
	return res
}

// Aggregate is what the parent accumulates.
type Aggregate struct {
	Evaluations  int
	Nontrivial   map[string]bool
	Violations   []AggViolation
	Counters     map[string]int64
	MaxCounters  map[string]bool
	Samples      []interface{}
	Inconclusive []string
}

type AggViolation struct {
	Violation
	Index int `json:"index"`
}

func NewAggregate() *Aggregate {
	return &Aggregate{Nontrivial: map[string]bool{}, Counters: map[string]int64{}, MaxCounters: map[string]bool{}}
}

func (a *Aggregate) Add(r CaseResult) {
	a.Evaluations++
	if r.Nontrivial {
		a.Nontrivial[r.Hash] = true
	}
	for _, v := range r.Violations {
		a.Violations = append(a.Violations, AggViolation{Violation: v, Index: r.Index})
	}
	for k, v := range r.Counters {
		if len(k) > 4 && k[:4] == "max_" {
			if v > a.Counters[k] {
				a.Counters[k] = v
			}
		} else {
			a.Counters[k] += v
		}
	}
	if r.Sample != nil && len(a.Samples) < 4 {
		a.Samples = append(a.Samples, r.Sample)
	}
	if r.Inconclusive != "" {
		a.Inconclusive = append(a.Inconclusive, fmt.Sprintf("case %d: %s", r.Index, r.Inconclusive))
	}
}

// JSON is a helper that never fails.
func JSON(v interface{}) string {
	b, err := json.Marshal(v)
	if err != nil {
		return fmt.Sprintf("%v", v)
	}
	return string(b)
}

// NewBareCase creates a case context outside the runner (used by auxiliary workloads).
func NewBareCase(property, tier string, seed int64, index int) *Case {
	res := &CaseResult{Index: index}
	return &Case{Property: property, Tier: tier, Seed: seed, Index: index, R: rand.New(rand.NewSource(CaseSeed(seed, property, index))), res: res}
}
