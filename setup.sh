#!/bin/bash
# Offline build of the verification harness (no fetch). Also warms the Go build cache.
set -e
export GOFLAGS=-mod=mod GOPROXY=off GOSUMDB=off GOTOOLCHAIN=local
cd /verif/harness
cp /repo/go.sum ./go.sum
mkdir -p /verif/bin /verif/evidence /verif/replays
go build -tags verif -o /verif/bin/verifcheck ./cmd/verifcheck
echo "setup ok"
