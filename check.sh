#!/bin/bash
# check.sh <property> <quick|thorough>
# Rebuilds the harness against /repo's current working tree (the harness module
# imports the repository through `replace => /repo`), then runs the monitor.
# exit 0 = held on everything explored; 1 = VIOLATION line printed; 2 = inconclusive/broken.
PROP="$1"; TIER="${2:-quick}"
export GOFLAGS=-mod=mod GOPROXY=off GOSUMDB=off GOTOOLCHAIN=local
export VERIF_TIER="$TIER"
cd /verif/harness || exit 2
cp /repo/go.sum ./go.sum 2>/dev/null
mkdir -p /verif/bin /verif/evidence /verif/replays
BIN=/verif/bin/verifcheck.$$
if ! go build -tags verif -o "$BIN" ./cmd/verifcheck 2>/verif/bin/build.$$.log; then
  echo "BUILD FAILED (harness against /repo working tree):"; head -40 /verif/bin/build.$$.log
  rm -f "$BIN" /verif/bin/build.$$.log
  exit 2
fi
rm -f /verif/bin/build.$$.log
cd /verif
"$BIN" run "$PROP" "$TIER"
RC=$?
rm -f "$BIN"
exit $RC
